// go2coq translates a FIXED list of pure functions of goat from their Go source
// (go/parser + go/ast, standard library only) into Gallina definitions over the
// primitives of coq/Gen/GoPrims.v. It supports exactly the statement and
// expression forms that occur in these functions and fails loudly (exit status 2,
// a message naming the construct and its position) on anything else: an edit it
// cannot translate is a broken tie, never skipped.
//
//	go run . -repo /repo -out /verif/build/gen
//
// writes <out>/<Name>Gen.v for every target and prints one JSON line per target
// on stdout: {"name":..., "status":"ok"|"untranslatable", "file":..., "msg":...}.
package main

import (
	"encoding/json"
	"flag"
	"fmt"
	"go/ast"
	"go/parser"
	"go/token"
	"os"
	"path/filepath"
	"sort"
	"strconv"
	"strings"
)

// ---- types of the Go subset
type ty int

const (
	tUnknown ty = iota
	tUntyped    // untyped integer / rune constant
	tString
	tByte
	tInt
	tInt64 // int64 and time.Duration
	tBool
	tErr
	tKV     // *goatorepo.KeyValue: (Key, Value)
	tKVList // []*goatorepo.KeyValue
	tMD     // metadata.MD
	tStrList
	tFunc
	tRpc   // *goatorepo.Rpc: the fields that end an RPC (Model/Status.v fenv)
	tWsPtr // *goatorepo.ResponseStatus (nil-safe getters)
	tWs    // spb.Status value
	tInt32
	tPresence // a pointer field or getter of which only nil-ness is used: bool "non-nil"
)

type untranslatable struct{ msg string }

type tr struct {
	fset    *token.FileSet
	vars    map[string]ty
	funcs   map[string]*ast.FuncLit // local closures
	fres    map[string][]ty         // their result types
	params  map[string]string       // call text -> free parameter (e.g. time.Until(deadline) -> g_remaining)
	consts  map[string]ast.Expr     // package-level constants of the file with literal values
	richErr bool                    // errors are structured values (goerr), not the flag non-nil
	results []ty                    // result types of the function being translated (for nil in a return)
}

func (t *tr) fail(n ast.Node, format string, a ...any) {
	panic(untranslatable{fmt.Sprintf("%s: %s", t.fset.Position(n.Pos()), fmt.Sprintf(format, a...))})
}

func gname(s string) string { return "g_" + s }

func and(gs ...string) string {
	var out []string
	for _, g := range gs {
		if g != "" {
			out = append(out, g)
		}
	}
	switch len(out) {
	case 0:
		return ""
	case 1:
		return out[0]
	}
	return "(" + strings.Join(out, " && ") + ")"
}

func bytesLit(s string) string {
	var n []string
	for i := 0; i < len(s); i++ {
		n = append(n, strconv.Itoa(int(s[i])))
	}
	return "(bz [" + strings.Join(n, "; ") + "])"
}

func (t *tr) typeOf(e ast.Expr) ty {
	switch x := e.(type) {
	case *ast.Ident:
		switch x.Name {
		case "string":
			return tString
		case "byte", "uint8":
			return tByte
		case "int":
			return tInt
		case "int64":
			return tInt64
		case "bool":
			return tBool
		case "error":
			return tErr
		}
	case *ast.SelectorExpr:
		if p, ok := x.X.(*ast.Ident); ok {
			switch p.Name + "." + x.Sel.Name {
			case "time.Duration":
				return tInt64
			case "metadata.MD":
				return tMD
			}
		}
	case *ast.StarExpr:
		if s, ok := x.X.(*ast.SelectorExpr); ok && s.Sel.Name == "KeyValue" {
			return tKV
		}
		if s, ok := x.X.(*ast.SelectorExpr); ok && exprText(s) == "goatorepo.Rpc" {
			return tRpc
		}
	case *ast.ArrayType:
		if x.Len == nil {
			switch t.typeOf(x.Elt) {
			case tKV:
				return tKVList
			case tString:
				return tStrList
			case tByte:
				return tString
			}
		}
	case *ast.Ellipsis:
		if t.typeOf(x.Elt) == tMD {
			return tUnknown
		}
	}
	t.fail(e, "type %s is outside the supported subset", exprText(e))
	return tUnknown
}

func exprText(e ast.Expr) string {
	var sb strings.Builder
	ast.Fprint(&sb, nil, e, nil)
	switch x := e.(type) {
	case *ast.Ident:
		return x.Name
	case *ast.SelectorExpr:
		return exprText(x.X) + "." + x.Sel.Name
	case *ast.CallExpr:
		var as []string
		for _, a := range x.Args {
			as = append(as, exprText(a))
		}
		return exprText(x.Fun) + "(" + strings.Join(as, ", ") + ")"
	case *ast.StarExpr:
		return "*" + exprText(x.X)
	case *ast.ArrayType:
		return "[]" + exprText(x.Elt)
	case *ast.BasicLit:
		return x.Value
	}
	return fmt.Sprintf("%T", e)
}

var constTable = map[string]string{
	"time.Nanosecond":  "1",
	"time.Microsecond": "1000",
	"time.Millisecond": "1000000",
	"time.Second":      "1000000000",
	"time.Minute":      "60000000000",
	"time.Hour":        "3600000000000",
	"math.MaxInt64":    "go_max_int64",
}

// grpc status codes used by the status decisions
var codeTable = map[string]string{"codes.OK": "0", "codes.Canceled": "1", "codes.Unknown": "2", "codes.DeadlineExceeded": "4",
	"codes.Internal": "13", "codes.Unavailable": "14"}

func arith(t1, t2 ty) ty {
	if t1 == tUntyped {
		return t2
	}
	return t1
}

// expr returns the Gallina term, its type and the guard (a bool term, "" = true)
// under which the Go expression evaluates without a run-time panic.
func (t *tr) expr(e ast.Expr) (string, ty, string) {
	switch x := e.(type) {
	case *ast.ParenExpr:
		return t.expr(x.X)
	case *ast.BasicLit:
		switch x.Kind {
		case token.INT:
			return x.Value, tUntyped, ""
		case token.CHAR:
			s, err := strconv.Unquote(x.Value)
			if err != nil || len(s) != 1 {
				t.fail(e, "character literal %s", x.Value)
			}
			return strconv.Itoa(int(s[0])), tUntyped, ""
		case token.STRING:
			s, err := strconv.Unquote(x.Value)
			if err != nil {
				t.fail(e, "string literal %s", x.Value)
			}
			return bytesLit(s), tString, ""
		}
	case *ast.Ident:
		switch x.Name {
		case "true", "false":
			return x.Name, tBool, ""
		case "nil":
			if t.richErr {
				return "GErrNil", tErr, ""
			}
			return "false", tErr, ""
		}
		if ty, ok := t.vars[x.Name]; ok {
			return gname(x.Name), ty, ""
		}
		if ce, ok := t.consts[x.Name]; ok {
			return t.expr(ce) // a package-level constant of the same file: its literal value
		}
		t.fail(e, "identifier %s is not a local variable or parameter", x.Name)
	case *ast.SelectorExpr:
		full := exprText(x)
		if c, ok := constTable[full]; ok {
			if full == "math.MaxInt64" {
				return c, tUntyped, ""
			}
			return c, tInt64, ""
		}
		if c, ok := codeTable[full]; ok {
			return c, tUntyped, ""
		}
		if full == "io.EOF" && t.richErr {
			return "GErrEof", tErr, ""
		}
		if id, ok := x.X.(*ast.Ident); ok && t.vars[id.Name] == tRpc && x.Sel.Name == "Trailer" {
			return "(e_trailer " + gname(id.Name) + ")", tPresence, ""
		}
		if id, ok := x.X.(*ast.Ident); ok && t.vars[id.Name] == tKV {
			switch x.Sel.Name {
			case "Key":
				return "(fst " + gname(id.Name) + ")", tString, ""
			case "Value":
				return "(snd " + gname(id.Name) + ")", tString, ""
			}
		}
		t.fail(e, "selector %s is not mapped", full)
	case *ast.UnaryExpr:
		a, ta, g := t.expr(x.X)
		switch x.Op {
		case token.NOT:
			return "(negb " + a + ")", tBool, g
		case token.SUB:
			if ta == tInt64 {
				return "(go_wrap64 (- " + a + "))", ta, g
			}
			return "(- " + a + ")", ta, g
		case token.AND:
			if _, ok := x.X.(*ast.CompositeLit); ok {
				return a, ta, g
			}
		}
		t.fail(e, "unary operator %s", x.Op)
	case *ast.CompositeLit:
		if exprText(x.Type) == "goatorepo.KeyValue" {
			var k, v, gk, gv string
			for _, el := range x.Elts {
				kv, ok := el.(*ast.KeyValueExpr)
				if !ok {
					t.fail(el, "positional composite literal")
				}
				val, _, g := t.expr(kv.Value)
				switch exprText(kv.Key) {
				case "Key":
					k, gk = val, g
				case "Value":
					v, gv = val, g
				default:
					t.fail(kv, "field %s of KeyValue", exprText(kv.Key))
				}
			}
			if k == "" || v == "" {
				t.fail(e, "KeyValue literal without Key or Value")
			}
			return "(" + k + ", " + v + ")", tKV, and(gk, gv)
		}
		if exprText(x.Type) == "spb.Status" {
			f := map[string]string{}
			var gs []string
			for _, el := range x.Elts {
				kv, ok := el.(*ast.KeyValueExpr)
				if !ok {
					t.fail(el, "positional composite literal")
				}
				v, _, g := t.expr(kv.Value)
				f[exprText(kv.Key)] = v
				gs = append(gs, g)
			}
			if len(f) != 3 || f["Code"] == "" || f["Message"] == "" || f["Details"] == "" {
				t.fail(e, "spb.Status literal must set exactly Code, Message and Details")
			}
			return "(mkWs " + f["Code"] + " " + f["Message"] + " " + f["Details"] + ")", tWs, and(gs...)
		}
		t.fail(e, "composite literal of type %s", exprText(x.Type))
	case *ast.BinaryExpr:
		a, ta, ga := t.expr(x.X)
		b, tb, gb := t.expr(x.Y)
		switch x.Op {
		case token.LAND:
			return "(" + a + " && " + b + ")", tBool, and(ga, guardImp(a, gb))
		case token.LOR:
			return "(" + a + " || " + b + ")", tBool, and(ga, guardImp("(negb "+a+")", gb))
		}
		g := and(ga, gb)
		tt := arith(ta, tb)
		switch x.Op {
		case token.EQL, token.NEQ:
			var c string
			switch {
			case ta == tString || tb == tString:
				c = "(go_str_eq " + a + " " + b + ")"
			case ta == tPresence || tb == tPresence:
				other := a
				if exprText(x.X) == "nil" {
					other = b
				} else if exprText(x.Y) != "nil" {
					t.fail(e, "comparison of two pointers")
				}
				if x.Op == token.EQL {
					return "(negb " + other + ")", tBool, g
				}
				return other, tBool, g
			case (ta == tErr || tb == tErr) && t.richErr:
				t.fail(e, "comparison of structured error values")
			case ta == tErr || tb == tErr:
				// err == nil / err != nil: an error is the flag "non-nil"
				other := a
				if exprText(x.X) == "nil" {
					other = b
				} else if exprText(x.Y) != "nil" {
					t.fail(e, "comparison of two error values")
				}
				if x.Op == token.EQL {
					return "(negb " + other + ")", tBool, g
				}
				return other, tBool, g
			case ta == tBool || tb == tBool:
				c = "(Bool.eqb " + a + " " + b + ")"
			default:
				c = "(" + a + " =? " + b + ")"
			}
			if x.Op == token.NEQ {
				c = "(negb " + c + ")"
			}
			return c, tBool, g
		case token.LSS:
			return "(" + a + " <? " + b + ")", tBool, g
		case token.LEQ:
			return "(" + a + " <=? " + b + ")", tBool, g
		case token.GTR:
			return "(" + a + " >? " + b + ")", tBool, g
		case token.GEQ:
			return "(" + a + " >=? " + b + ")", tBool, g
		case token.ADD:
			if tt == tString {
				return "(" + a + " ++ " + b + ")", tString, g
			}
			return t.wrap(tt, "("+a+" + "+b+")"), tt, g
		case token.SUB:
			return t.wrap(tt, "("+a+" - "+b+")"), tt, g
		case token.MUL:
			return t.wrap(tt, "("+a+" * "+b+")"), tt, g
		case token.QUO:
			return t.wrap(tt, "(go_quo "+a+" "+b+")"), tt, and(g, "(negb ("+b+" =? 0))")
		case token.REM:
			return "(go_rem " + a + " " + b + ")", tt, and(g, "(negb ("+b+" =? 0))")
		}
		t.fail(e, "binary operator %s", x.Op)
	case *ast.IndexExpr:
		s, ts, gs := t.expr(x.X)
		i, _, gi := t.expr(x.Index)
		if ts != tString {
			t.fail(e, "indexing a value that is not a string / []byte")
		}
		return "(go_index " + s + " " + i + ")", tByte, and(gs, gi, "(go_index_ok "+s+" "+i+")")
	case *ast.SliceExpr:
		if x.Slice3 {
			t.fail(e, "three-index slice")
		}
		s, ts, gs := t.expr(x.X)
		if ts != tString {
			t.fail(e, "slicing a value that is not a string / []byte")
		}
		lo, hi, glo, ghi := "0", "(go_len "+s+")", "", ""
		if x.Low != nil {
			lo, _, glo = t.expr(x.Low)
		}
		if x.High != nil {
			hi, _, ghi = t.expr(x.High)
		}
		return "(go_slice " + s + " " + lo + " " + hi + ")", tString, and(gs, glo, ghi, "(go_slice_ok "+s+" "+lo+" "+hi+")")
	case *ast.CallExpr:
		fn := exprText(x.Fun)
		if p, ok := t.params[exprText(x)]; ok {
			return p, tInt64, ""
		}
		arg := func(i int) (string, ty, string) {
			if i >= len(x.Args) {
				t.fail(e, "call of %s with %d arguments", fn, len(x.Args))
			}
			return t.expr(x.Args[i])
		}
		// method calls on the envelope and on a status pointer (nil-safe protobuf getters)
		if sel, ok := x.Fun.(*ast.SelectorExpr); ok && len(x.Args) == 0 {
			if id, ok := sel.X.(*ast.Ident); ok {
				switch t.vars[id.Name] {
				case tRpc:
					switch sel.Sel.Name {
					case "GetReset_":
						return "(e_reset " + gname(id.Name) + ")", tPresence, ""
					case "GetTrailer":
						return "(e_trailer " + gname(id.Name) + ")", tPresence, ""
					case "GetStatus":
						return "(e_status " + gname(id.Name) + ")", tWsPtr, ""
					}
				case tWsPtr:
					switch sel.Sel.Name {
					case "GetCode":
						return "(go_get_code " + gname(id.Name) + ")", tInt32, ""
					case "GetMessage":
						return "(go_get_message " + gname(id.Name) + ")", tString, ""
					case "GetDetails":
						return "(go_get_details " + gname(id.Name) + ")", tUnknown, ""
					}
				}
			}
			// status.FromProto(&sp).Err()
			if sel.Sel.Name == "Err" {
				if inner, ok := sel.X.(*ast.CallExpr); ok && exprText(inner.Fun) == "status.FromProto" && len(inner.Args) == 1 {
					if u, ok := inner.Args[0].(*ast.UnaryExpr); ok && u.Op == token.AND {
						if id, ok := u.X.(*ast.Ident); ok && t.vars[id.Name] == tWs && t.richErr {
							return "(go_from_proto_err " + gname(id.Name) + ")", tErr, ""
						}
					}
				}
			}
		}
		switch fn {
		case "int32":
			a, _, g := arg(0)
			return a, tInt32, g
		case "status.Error":
			if !t.richErr {
				t.fail(e, "status.Error outside a structured-error target")
			}
			c, _, gc := arg(0)
			m, _, gm := arg(1)
			return "(go_status_error " + c + " " + m + ")", tErr, and(gc, gm)
		case "len":
			a, ta, g := arg(0)
			if ta != tString {
				t.fail(e, "len of a value that is not a string / []byte")
			}
			return "(go_len " + a + ")", tInt, g
		case "int64", "time.Duration":
			a, _, g := arg(0)
			return a, tInt64, g // int, int64, Duration and untyped constants are all Z: the conversion is the identity on the values these functions handle
		case "string", "[]byte":
			a, ta, g := arg(0)
			if ta != tString {
				t.fail(e, "conversion %s of a non-string", fn)
			}
			return a, tString, g
		case "strings.ToLower":
			a, _, g := arg(0)
			return "(go_to_lower " + a + ")", tString, g
		case "strings.HasSuffix", "strings.HasPrefix", "strings.LastIndex":
			a, _, ga := arg(0)
			b, _, gb := arg(1)
			m := map[string]string{"strings.HasSuffix": "go_has_suffix", "strings.HasPrefix": "go_has_prefix", "strings.LastIndex": "go_last_index"}[fn]
			rt := tBool
			if fn == "strings.LastIndex" {
				rt = tInt
			}
			return "(" + m + " " + a + " " + b + ")", rt, and(ga, gb)
		case "base64.URLEncoding.EncodeToString":
			a, _, g := arg(0)
			return "(go_b64_encode " + a + ")", tString, g
		case "fmt.Sprintf":
			f, ok := x.Args[0].(*ast.BasicLit)
			if !ok || f.Kind != token.STRING {
				t.fail(e, "fmt.Sprintf with a format that is not a literal")
			}
			fs, _ := strconv.Unquote(f.Value)
			parts := strings.Split(fs, "%d")
			if strings.Contains(strings.Join(parts, ""), "%") || len(parts)-1 != len(x.Args)-1 {
				t.fail(e, "fmt.Sprintf format %q: only %%d verbs are mapped", fs)
			}
			var terms, gs []string
			for i, p := range parts {
				if p != "" {
					terms = append(terms, bytesLit(p))
				}
				if i < len(parts)-1 {
					a, _, g := arg(i + 1)
					terms = append(terms, "(go_itoa "+a+")")
					gs = append(gs, g)
				}
			}
			return "(" + strings.Join(terms, " ++ ") + ")", tString, and(gs...)
		case "fmt.Errorf", "errors.New":
			for i := range x.Args {
				if _, _, g := arg(i); g != "" {
					t.fail(e, "an argument of %s can panic", fn)
				}
			}
			return "true", tErr, ""
		}
		t.fail(e, "call of %s is not mapped (calls of local closures and of functions with two results are statements)", fn)
	}
	t.fail(e, "expression form %T", e)
	return "", tUnknown, ""
}

func guardImp(cond, g string) string {
	if g == "" {
		return ""
	}
	return "(negb " + cond + " || " + g + ")"
}

func (t *tr) wrap(tt ty, s string) string {
	if tt == tInt64 {
		return "(go_wrap64 " + s + ")"
	}
	return s // int: lengths and indices, far from 2^63 (documented)
}

// ---- statements: a statement list becomes one term; "rest" is duplicated into
// both branches of an if, assignments are lets.
type ctx struct {
	ret   func(vals string) string // a return statement
	panic string                   // a run-time panic
	end   func(t *tr) string       // falling off the end of the list
}

func guarded(g, panicT, body string) string {
	if g == "" {
		return body
	}
	return "if negb " + g + " then " + panicT + " else\n" + body
}

func tuple(xs []string) string {
	if len(xs) == 1 {
		return xs[0]
	}
	return "(" + strings.Join(xs, ", ") + ")"
}

func (t *tr) stmts(list []ast.Stmt, c ctx) string {
	if len(list) == 0 {
		return c.end(t)
	}
	s, rest := list[0], list[1:]
	switch x := s.(type) {
	case *ast.ReturnStmt:
		var vals, gs []string
		for i, r := range x.Results {
			v, _, g := t.expr(r)
			if exprText(r) == "nil" && i < len(t.results) {
				switch t.results[i] {
				case tMD:
					v = "(@nil (bytes * list bytes))"
				case tErr:
					v = "false"
					if t.richErr {
						v = "GErrNil"
					}
				default:
					t.fail(r, "nil as a result of this type")
				}
			}
			vals = append(vals, v)
			gs = append(gs, g)
		}
		return guarded(and(gs...), c.panic, c.ret(tuple(vals)))
	case *ast.BlockStmt:
		return t.stmts(append(append([]ast.Stmt{}, x.List...), rest...), c)
	case *ast.IfStmt:
		if x.Init != nil {
			t.fail(x, "if statement with an init clause")
		}
		cond, _, g := t.expr(x.Cond)
		saved := t.snapshot()
		thenT := t.stmts(append(append([]ast.Stmt{}, x.Body.List...), rest...), c)
		t.restore(saved)
		var elseList []ast.Stmt
		if x.Else != nil {
			elseList = []ast.Stmt{x.Else}
		}
		elseT := t.stmts(append(elseList, rest...), c)
		t.restore(saved)
		return guarded(g, c.panic, "if "+cond+" then (\n"+thenT+"\n) else (\n"+elseT+"\n)")
	case *ast.SwitchStmt:
		if x.Init != nil || x.Tag == nil {
			t.fail(x, "switch without a tag or with an init clause")
		}
		tag, _, g := t.expr(x.Tag)
		var def []ast.Stmt
		hasDef := false
		type arm struct {
			cond string
			body []ast.Stmt
		}
		var arms []arm
		for _, cc := range x.Body.List {
			cl := cc.(*ast.CaseClause)
			for _, st := range cl.Body {
				if _, ok := st.(*ast.BranchStmt); ok {
					t.fail(st, "break / fallthrough in a switch")
				}
			}
			if cl.List == nil {
				def, hasDef = cl.Body, true
				continue
			}
			var cs []string
			for _, v := range cl.List {
				vt, _, gv := t.expr(v)
				if gv != "" {
					t.fail(v, "case expression that can panic")
				}
				cs = append(cs, "("+tag+" =? "+vt+")")
			}
			arms = append(arms, arm{strings.Join(cs, " || "), cl.Body})
		}
		_ = hasDef
		saved := t.snapshot()
		out := t.stmts(append(append([]ast.Stmt{}, def...), rest...), c)
		t.restore(saved)
		for i := len(arms) - 1; i >= 0; i-- {
			b := t.stmts(append(append([]ast.Stmt{}, arms[i].body...), rest...), c)
			t.restore(saved)
			out = "if " + arms[i].cond + " then (\n" + b + "\n) else (\n" + out + "\n)"
		}
		return guarded(g, c.panic, out)
	case *ast.DeclStmt:
		gd, ok := x.Decl.(*ast.GenDecl)
		if !ok || gd.Tok != token.VAR {
			t.fail(x, "declaration that is not a var")
		}
		out := ""
		for _, sp := range gd.Specs {
			vs := sp.(*ast.ValueSpec)
			if len(vs.Values) != 0 {
				t.fail(vs, "var with initial values (use :=)")
			}
			tt := t.typeOf(vs.Type)
			zero := map[ty]string{tString: "(@nil N)", tInt: "0", tInt64: "0", tByte: "0", tBool: "false", tErr: "false"}[tt]
			if zero == "" {
				t.fail(vs, "zero value of %s", exprText(vs.Type))
			}
			for _, n := range vs.Names {
				t.vars[n.Name] = tt
				out += "let " + gname(n.Name) + " := " + zero + " in\n"
			}
		}
		return out + t.stmts(rest, c)
	case *ast.AssignStmt:
		return t.assign(x, rest, c)
	case *ast.ForStmt:
		return t.forStmt(x, rest, c)
	case *ast.RangeStmt:
		return t.rangeStmt(x, rest, c)
	case *ast.ExprStmt:
		t.fail(x, "expression statement %s", exprText(x.X))
	}
	t.fail(s, "statement form %T", s)
	return ""
}

func (t *tr) snapshot() map[string]ty {
	m := map[string]ty{}
	for k, v := range t.vars {
		m[k] = v
	}
	return m
}
func (t *tr) restore(m map[string]ty) {
	t.vars = map[string]ty{}
	for k, v := range m {
		t.vars[k] = v
	}
}

func (t *tr) assign(x *ast.AssignStmt, rest []ast.Stmt, c ctx) string {
	if x.Tok != token.DEFINE && x.Tok != token.ASSIGN {
		t.fail(x, "assignment operator %s", x.Tok)
	}
	lhsName := func(e ast.Expr) string {
		id, ok := e.(*ast.Ident)
		if !ok {
			t.fail(e, "assignment to %s", exprText(e))
		}
		if x.Tok == token.ASSIGN && id.Name != "_" {
			if _, ok := t.vars[id.Name]; !ok {
				t.fail(e, "assignment to the undeclared variable %s", id.Name)
			}
		}
		if id.Name == "_" {
			return "_"
		}
		return gname(id.Name)
	}
	// md[k] = append(md[k], v)
	if ix, ok := x.Lhs[0].(*ast.IndexExpr); ok && len(x.Lhs) == 1 {
		m, tm, _ := t.expr(ix.X)
		call, isCall := x.Rhs[0].(*ast.CallExpr)
		if tm != tMD || !isCall || exprText(call.Fun) != "append" || len(call.Args) != 2 || exprText(call.Args[0]) != exprText(ix) {
			t.fail(x, "map assignment that is not m[k] = append(m[k], v)")
		}
		k, _, gk := t.expr(ix.Index)
		v, _, gv := t.expr(call.Args[1])
		return guarded(and(gk, gv), c.panic, "let "+m+" := md_append "+k+" "+v+" "+m+" in\n"+t.stmts(rest, c))
	}
	if len(x.Rhs) == 1 {
		if call, ok := x.Rhs[0].(*ast.CallExpr); ok {
			fn := exprText(call.Fun)
			// closures
			if lit, ok := t.funcs[fn]; ok {
				if len(x.Lhs) != len(t.fres[fn]) {
					t.fail(x, "call of %s with %d results", fn, len(x.Lhs))
				}
				var as, gs, names []string
				for _, a := range call.Args {
					v, _, g := t.expr(a)
					as = append(as, v)
					gs = append(gs, g)
				}
				_ = lit
				for i, l := range x.Lhs {
					names = append(names, lhsName(l))
					if id := l.(*ast.Ident); id.Name != "_" {
						t.vars[id.Name] = t.fres[fn][i]
					}
				}
				return guarded(and(gs...), c.panic,
					"match "+gname(fn)+" "+strings.Join(as, " ")+" with\n| GoPanic => "+c.panic+"\n| GoOk "+tuple(names)+" =>\n"+t.stmts(rest, c)+"\nend")
			}
			two := map[string]struct {
				prim string
				rts  []ty
			}{
				"strconv.ParseInt":                {"go_parse_int64", []ty{tInt64, tErr}},
				"base64.URLEncoding.DecodeString": {"go_b64_decode", []ty{tString, tErr}},
			}
			if m, ok := two[fn]; ok {
				if len(x.Lhs) != 2 {
					t.fail(x, "%s has two results", fn)
				}
				if fn == "strconv.ParseInt" && (len(call.Args) != 3 || exprText(call.Args[1]) != "10" || exprText(call.Args[2]) != "64") {
					t.fail(call, "strconv.ParseInt is mapped for base 10, 64 bits only")
				}
				a, _, g := t.expr(call.Args[0])
				var names []string
				for i, l := range x.Lhs {
					names = append(names, lhsName(l))
					if id := l.(*ast.Ident); id.Name != "_" {
						t.vars[id.Name] = m.rts[i]
					}
				}
				return guarded(g, c.panic, "let '"+tuple(names)+" := "+m.prim+" "+a+" in\n"+t.stmts(rest, c))
			}
			// h = append(h, X) on a KeyValue list
			if fn == "append" && len(call.Args) == 2 {
				l, tl, _ := t.expr(call.Args[0])
				if tl == tKVList && exprText(x.Lhs[0]) == exprText(call.Args[0]) {
					v, _, g := t.expr(call.Args[1])
					return guarded(g, c.panic, "let "+l+" := "+l+" ++ ["+v+"] in\n"+t.stmts(rest, c))
				}
			}
		}
		if lit, ok := x.Rhs[0].(*ast.FuncLit); ok {
			id := x.Lhs[0].(*ast.Ident)
			return t.closure(id.Name, lit) + t.stmts(rest, c)
		}
		if cl, ok := x.Rhs[0].(*ast.CompositeLit); ok && exprText(cl.Type) == "metadata.MD" && len(cl.Elts) == 0 {
			id := x.Lhs[0].(*ast.Ident)
			t.vars[id.Name] = tMD
			return "let " + gname(id.Name) + " := (@nil (bytes * list bytes)) in\n" + t.stmts(rest, c)
		}
	}
	if len(x.Lhs) != len(x.Rhs) {
		t.fail(x, "assignment with %d targets and %d values", len(x.Lhs), len(x.Rhs))
	}
	var names, vals, gs []string
	var tys []ty
	for i := range x.Lhs {
		v, tv, g := t.expr(x.Rhs[i])
		vals = append(vals, v)
		gs = append(gs, g)
		tys = append(tys, tv)
	}
	for i, l := range x.Lhs {
		names = append(names, lhsName(l))
		if id := l.(*ast.Ident); id.Name != "_" {
			if x.Tok == token.DEFINE || t.vars[id.Name] == tUnknown {
				tt := tys[i]
				if tt == tUntyped {
					tt = tInt
				}
				t.vars[id.Name] = tt
			}
		}
	}
	head := "let " + names[0] + " := " + vals[0] + " in\n"
	if len(names) > 1 {
		head = "let '" + tuple(names) + " := " + tuple(vals) + " in\n"
	}
	return guarded(and(gs...), c.panic, head+t.stmts(rest, c))
}

func (t *tr) closure(name string, lit *ast.FuncLit) string {
	var ps []string
	saved := t.snapshot()
	for _, f := range lit.Type.Params.List {
		for _, n := range f.Names {
			t.vars[n.Name] = t.typeOf(f.Type)
			ps = append(ps, gname(n.Name))
		}
	}
	var rts []ty
	if lit.Type.Results != nil {
		for _, f := range lit.Type.Results.List {
			rts = append(rts, t.typeOf(f.Type))
		}
	}
	body := t.stmts(lit.Body.List, ctx{
		ret:   func(v string) string { return "GoOk " + v },
		panic: "GoPanic",
		end:   func(t *tr) string { t.fail(lit, "closure %s can fall off its end", name); return "" },
	})
	t.restore(saved)
	t.funcs[name] = lit
	t.fres[name] = rts
	t.vars[name] = tFunc
	return "let " + gname(name) + " := fun " + strings.Join(ps, " ") + " =>\n" + body + "\nin\n"
}

// variables of the enclosing scope that a loop body assigns
func (t *tr) carried(body *ast.BlockStmt, own map[string]bool) []string {
	set := map[string]bool{}
	declared := map[string]bool{}
	ast.Inspect(body, func(n ast.Node) bool {
		as, ok := n.(*ast.AssignStmt)
		if !ok {
			return true
		}
		for _, l := range as.Lhs {
			var id *ast.Ident
			switch v := l.(type) {
			case *ast.Ident:
				id = v
			case *ast.IndexExpr:
				id, _ = v.X.(*ast.Ident)
			}
			if id == nil || id.Name == "_" {
				continue
			}
			if as.Tok == token.DEFINE {
				if _, outer := t.vars[id.Name]; !outer || declared[id.Name] {
					declared[id.Name] = true
					continue
				}
				// := of a name that exists outside shadows it in Go; the subset forbids that
				t.fail(as, "%s := shadows a variable of the enclosing scope inside a loop", id.Name)
			}
			if _, outer := t.vars[id.Name]; outer && !own[id.Name] && !declared[id.Name] {
				set[id.Name] = true
			}
		}
		return true
	})
	var out []string
	for k := range set {
		out = append(out, k)
	}
	sort.Strings(out)
	return out
}

func (t *tr) loop(items, itemPat string, own map[string]bool, body *ast.BlockStmt, rest []ast.Stmt, c ctx, node ast.Node) string {
	ast.Inspect(body, func(n ast.Node) bool {
		if b, ok := n.(*ast.BranchStmt); ok {
			t.fail(b, "%s inside a loop", b.Tok)
		}
		return true
	})
	car := t.carried(body, own)
	var cn []string
	for _, v := range car {
		cn = append(cn, gname(v))
	}
	state := "tt"
	if len(cn) > 0 {
		state = tuple(cn)
	}
	saved := t.snapshot()
	bodyT := t.stmts(body.List, ctx{
		ret:   func(v string) string { return "LReturn (" + c.ret(v) + ")" },
		panic: "LReturn (" + c.panic + ")",
		end:   func(t *tr) string { return "LContinue " + state },
	})
	t.restore(saved)
	restT := t.stmts(rest, c)
	pat := "'" + state
	if state == "tt" {
		pat = "_"
	}
	return "match go_loop " + items + " " + state + " (fun " + pat + " " + itemPat + " =>\n" + bodyT + "\n) with\n| LReturn r => r\n| LContinue " + pat[strings.Index(pat, "'")+1:] + " =>\n" + restT + "\nend"
}

// for i := 0; i < N; i++ { ... }
func (t *tr) forStmt(x *ast.ForStmt, rest []ast.Stmt, c ctx) string {
	init, ok1 := x.Init.(*ast.AssignStmt)
	cond, ok2 := x.Cond.(*ast.BinaryExpr)
	post, ok3 := x.Post.(*ast.IncDecStmt)
	if !ok1 || !ok2 || !ok3 || init.Tok != token.DEFINE || len(init.Lhs) != 1 || exprText(init.Rhs[0]) != "0" ||
		cond.Op != token.LSS || exprText(cond.X) != exprText(init.Lhs[0]) || post.Tok != token.INC || exprText(post.X) != exprText(init.Lhs[0]) {
		t.fail(x, "for statement that is not of the form  for i := 0; i < n; i++")
	}
	iv := init.Lhs[0].(*ast.Ident).Name
	n, _, g := t.expr(cond.Y)
	if g != "" {
		t.fail(cond.Y, "loop bound that can panic")
	}
	ast.Inspect(x.Body, func(nd ast.Node) bool {
		if as, ok := nd.(*ast.AssignStmt); ok {
			for _, l := range as.Lhs {
				if exprText(l) == iv {
					t.fail(as, "assignment to the loop variable %s", iv)
				}
			}
		}
		return true
	})
	saved := t.snapshot()
	t.vars[iv] = tInt
	out := t.loop("(go_iota "+n+")", gname(iv), map[string]bool{iv: true}, x.Body, rest, c, x)
	_ = saved
	delete(t.vars, iv)
	return out
}

// for _, h := range kvs { ... }   /   for i := range s  is not mapped
func (t *tr) rangeStmt(x *ast.RangeStmt, rest []ast.Stmt, c ctx) string {
	if x.Tok != token.DEFINE || x.Value == nil || exprText(x.Key) != "_" {
		t.fail(x, "range statement that is not of the form  for _, v := range list")
	}
	l, tl, g := t.expr(x.X)
	if g != "" || tl != tKVList {
		t.fail(x.X, "range over a value that is not a []*KeyValue")
	}
	v := x.Value.(*ast.Ident).Name
	t.vars[v] = tKV
	out := t.loop(l, gname(v), map[string]bool{v: true}, x.Body, rest, c, x)
	delete(t.vars, v)
	return out
}

// ---- targets
type target struct {
	Name    string // Coq module <Name>Gen, definition gen_<func>
	File    string
	Func    string
	Frag    string            // "" = whole function; else: the body of the if statement whose init is this text
	Params  map[string]string // call text -> parameter name (free variables of a fragment)
	Extra   []string          // parameters of the generated definition for a fragment
	Result  string            // fragment: the variable whose final value is the result
	Pre     string            // fragment: let-bindings in front
	RichErr bool              // errors are structured values
}

var targets = []target{
	{Name: "ParseGrpcTimeout", File: "server.go", Func: "parseGrpcTimeout"},
	{Name: "ParseRawMethod", File: "server.go", Func: "parseRawMethod"},
	{Name: "DeadlineHeader", File: "client.go", Func: "headersFromContext", Frag: "deadline, ok := ctx.Deadline()",
		Params: map[string]string{"time.Until(deadline)": "g_remaining"}, Extra: []string{"(g_remaining : Z)"}, Result: "h",
		Pre: "let g_h := (@nil (bytes * bytes)) in\n"},
	{Name: "ToMetadata", File: "internal/util.go", Func: "ToMetadata"},
	{Name: "ErrorIfDone", File: "internal/client/stream.go", Func: "errorIfDone", RichErr: true},
}

func translate(repo string, tg target) (out string, err error) {
	defer func() {
		if r := recover(); r != nil {
			if u, ok := r.(untranslatable); ok {
				err = fmt.Errorf("%s", u.msg)
				return
			}
			panic(r)
		}
	}()
	fset := token.NewFileSet()
	f, perr := parser.ParseFile(fset, filepath.Join(repo, tg.File), nil, 0)
	if perr != nil {
		return "", perr
	}
	var fd *ast.FuncDecl
	for _, d := range f.Decls {
		if x, ok := d.(*ast.FuncDecl); ok && x.Name.Name == tg.Func && x.Recv == nil {
			fd = x
		}
	}
	if fd == nil {
		return "", fmt.Errorf("%s: function %s not found", tg.File, tg.Func)
	}
	t := &tr{fset: fset, vars: map[string]ty{}, funcs: map[string]*ast.FuncLit{}, fres: map[string][]ty{}, params: tg.Params, consts: map[string]ast.Expr{}, richErr: tg.RichErr}
	for _, d := range f.Decls {
		if gd, ok := d.(*ast.GenDecl); ok && gd.Tok == token.CONST {
			for _, sp := range gd.Specs {
				vs := sp.(*ast.ValueSpec)
				for i, n := range vs.Names {
					if i < len(vs.Values) {
						if bl, ok := vs.Values[i].(*ast.BasicLit); ok {
							t.consts[n.Name] = bl
						}
					}
				}
			}
		}
	}
	var sb strings.Builder
	fmt.Fprintf(&sb, "(* GENERATED by tools/go2coq from %s (func %s) - do not edit, not committed *)\n", tg.File, tg.Func)
	sb.WriteString("From Goat Require Import Base.Bytes Model.Meta Model.Status Gen.GoPrims.\nOpen Scope Z_scope.\n\n")
	if tg.Frag == "" {
		var ps []string
		for _, fl := range fd.Type.Params.List {
			tt := t.typeOf(fl.Type)
			for _, n := range fl.Names {
				t.vars[n.Name] = tt
				if tt == tRpc {
					ps = append(ps, "("+gname(n.Name)+" : go_env)")
				} else {
					ps = append(ps, gname(n.Name))
				}
			}
		}
		if fd.Type.Results != nil {
			for _, fl := range fd.Type.Results.List {
				n := len(fl.Names)
				if n == 0 {
					n = 1
				}
				for i := 0; i < n; i++ {
					t.results = append(t.results, t.typeOf(fl.Type))
				}
			}
		}
		body := t.stmts(fd.Body.List, ctx{
			ret:   func(v string) string { return "GoOk " + v },
			panic: "GoPanic",
			end:   func(t *tr) string { t.fail(fd, "function can fall off its end"); return "" },
		})
		fmt.Fprintf(&sb, "Definition gen_%s %s :=\n%s.\n", tg.Func, strings.Join(ps, " "), body)
		return sb.String(), nil
	}
	// a fragment: the body of "if <Frag>; ok { ... }"
	var frag *ast.IfStmt
	ast.Inspect(fd.Body, func(n ast.Node) bool {
		if is, ok := n.(*ast.IfStmt); ok && is.Init != nil {
			if as, ok := is.Init.(*ast.AssignStmt); ok {
				var l, r []string
				for _, e := range as.Lhs {
					l = append(l, exprText(e))
				}
				for _, e := range as.Rhs {
					r = append(r, exprText(e))
				}
				if strings.Join(l, ", ")+" "+as.Tok.String()+" "+strings.Join(r, ", ") == tg.Frag {
					frag = is
				}
			}
		}
		return true
	})
	if frag == nil {
		return "", fmt.Errorf("%s: no statement  if %s; ...  in %s", tg.File, tg.Frag, tg.Func)
	}
	if exprText(frag.Cond) != "ok" || frag.Else != nil {
		return "", fmt.Errorf("%s: the statement  if %s; %s  has changed shape", fset.Position(frag.Pos()), tg.Frag, exprText(frag.Cond))
	}
	t.vars[tg.Result] = tKVList
	body := t.stmts(frag.Body.List, ctx{
		ret:   func(v string) string { t.fail(frag, "return inside the fragment"); return "" },
		panic: "GoPanic",
		end:   func(t *tr) string { return "GoOk " + gname(tg.Result) },
	})
	fmt.Fprintf(&sb, "Definition gen_%s %s :=\n%s%s.\n", tg.Name, strings.Join(tg.Extra, " "), tg.Pre, body)
	return sb.String(), nil
}

func main() {
	repo := flag.String("repo", "", "root of the goat tree (default $VERIF_REPO or /repo)")
	out := flag.String("out", "", "output directory")
	flag.Parse()
	if *repo == "" {
		*repo = os.Getenv("VERIF_REPO")
	}
	if *repo == "" {
		*repo = "/repo"
	}
	if *out == "" {
		fmt.Fprintln(os.Stderr, "go2coq: -out is required")
		os.Exit(2)
	}
	os.MkdirAll(*out, 0o755)
	enc := json.NewEncoder(os.Stdout)
	bad := false
	for _, tg := range targets {
		file := filepath.Join(*out, tg.Name+"Gen.v")
		os.Remove(file)
		text, err := translate(*repo, tg)
		if err != nil {
			bad = true
			fmt.Fprintf(os.Stderr, "go2coq: %s: UNTRANSLATABLE: %v\n", tg.Name, err)
			enc.Encode(map[string]string{"name": tg.Name, "status": "untranslatable", "msg": err.Error()})
			continue
		}
		if werr := os.WriteFile(file, []byte(text), 0o644); werr != nil {
			fmt.Fprintln(os.Stderr, werr)
			os.Exit(2)
		}
		enc.Encode(map[string]string{"name": tg.Name, "status": "ok", "file": file})
	}
	if bad {
		os.Exit(2)
	}
}

package main

import (
	"bufio"
	"fmt"
	"os"
	"sort"
	"strings"
)

// jline is one line of justify.txt:
//
//	Struct.field  FunctionName|*  init|confined:<owner>|immutable|pub:<tag>|after:<tag>  # reason
//
// init is OBJECT-level: the function writes the field while the object is
// still private to its creator; such a row is safe against every other row.
// pub:<tag> / after:<tag> are FIELD-level: the object is already shared when
// the pub function writes the field; only the functions listed as after:<tag>
// (each line carries its own happens-after argument) are ordered after that
// write. Neither may name the function "*": a site that no line lists stays
// plain and is unsafe against the pub write.
type jline struct {
	n      int // 1-based line number
	field  string
	fn     string
	class  string // init | confined | immutable | pub | after
	owner  string // confined: the owner; pub / after: the tag
	reason string
	bad    string // syntax problem, if any
}

func parseJustify(file string) ([]*jline, error) {
	f, err := os.Open(file)
	if err != nil {
		return nil, err
	}
	defer f.Close()
	var out []*jline
	sc := bufio.NewScanner(f)
	n := 0
	for sc.Scan() {
		n++
		text := sc.Text()
		reason := ""
		if i := strings.Index(text, "#"); i >= 0 {
			reason = strings.TrimSpace(text[i+1:])
			text = text[:i]
		}
		parts := strings.Fields(text)
		if len(parts) == 0 {
			continue
		}
		jl := &jline{n: n, reason: reason}
		out = append(out, jl)
		if len(parts) != 3 {
			jl.bad = fmt.Sprintf("expected 3 columns, found %d", len(parts))
			continue
		}
		jl.field, jl.fn = parts[0], parts[1]
		switch {
		case parts[2] == "init":
			jl.class = "init"
		case parts[2] == "immutable":
			jl.class = "immutable"
			if jl.fn != "*" {
				jl.bad = "immutable is only allowed with function *"
			}
		case strings.HasPrefix(parts[2], "confined:") && len(parts[2]) > len("confined:"):
			jl.class = "confined"
			jl.owner = strings.TrimPrefix(parts[2], "confined:")
		case strings.HasPrefix(parts[2], "pub:") && len(parts[2]) > len("pub:"):
			jl.class = "pub"
			jl.owner = strings.TrimPrefix(parts[2], "pub:")
			if jl.fn == "*" {
				jl.bad = "pub needs the one function that publishes the field, not *"
			}
		case strings.HasPrefix(parts[2], "after:") && len(parts[2]) > len("after:"):
			jl.class = "after"
			jl.owner = strings.TrimPrefix(parts[2], "after:")
			if jl.fn == "*" {
				jl.bad = "after needs an explicit access site (function) with its own happens-after argument, not *"
			}
		default:
			jl.bad = fmt.Sprintf("unknown class %q", parts[2])
		}
	}
	return out, sc.Err()
}

type staleRec struct {
	line int
	what string
}

// applyJustify classifies the plain rows named by justify.txt and returns the
// stale / erroneous lines. rowsByField holds every row, knownFields every
// tracked data field.
func applyJustify(file string, lines []*jline, rowsByField map[string][]*row, knownFields map[string]bool) []staleRec {
	var stale []staleRec
	bad := func(jl *jline, format string, args ...any) {
		stale = append(stale, staleRec{jl.n, fmt.Sprintf("%s:%d: ", file, jl.n) + fmt.Sprintf(format, args...)})
	}
	seen := map[string]int{}
	var specific, star, immutable []*jline
	for _, jl := range lines {
		if jl.bad != "" {
			bad(jl, "%s", jl.bad)
			continue
		}
		if !knownFields[jl.field] {
			bad(jl, "%s is not a tracked data field", jl.field)
			continue
		}
		if jl.class == "immutable" {
			immutable = append(immutable, jl)
			continue
		}
		key := jl.field + "\x00" + jl.fn
		if prev, dup := seen[key]; dup {
			bad(jl, "duplicate of line %d", prev)
			continue
		}
		seen[key] = jl.n
		if jl.fn == "*" {
			star = append(star, jl)
			continue
		}
		found := false
		for _, r := range rowsByField[jl.field] {
			if r.fn == jl.fn {
				found = true
				break
			}
		}
		if !found {
			bad(jl, "function %s contains no access of %s (or does not exist)", jl.fn, jl.field)
			continue
		}
		specific = append(specific, jl)
	}
	// an after:<tag> line is an argument relative to a pub:<tag> write of the same field
	pubs := map[string]bool{}
	for _, jl := range specific {
		if jl.class == "pub" {
			pubs[jl.field+"\x00"+jl.owner] = true
		}
	}
	kept := specific[:0]
	for _, jl := range specific {
		if jl.class == "after" && !pubs[jl.field+"\x00"+jl.owner] {
			bad(jl, "after:%s without a pub:%s line for %s", jl.owner, jl.owner, jl.field)
			continue
		}
		kept = append(kept, jl)
	}
	specific = kept
	set := func(r *row, jl *jline) {
		r.class, r.owner = jl.class, jl.owner
		r.why = fmt.Sprintf("justify.txt:%d %s", jl.n, jl.reason)
	}
	done := map[*row]bool{}
	for _, jl := range specific {
		for _, r := range rowsByField[jl.field] {
			if r.fn == jl.fn && !(r.class == "init" && r.why == "composite literal") {
				set(r, jl)
				done[r] = true
			}
		}
	}
	for _, jl := range star {
		for _, r := range rowsByField[jl.field] {
			if !done[r] && !(r.class == "init" && r.why == "composite literal") {
				set(r, jl)
			}
		}
	}
	for _, jl := range immutable {
		for _, r := range rowsByField[jl.field] {
			if r.write && r.class != "init" {
				bad(jl, "immutable violated: %s is written in %s at %s (class %s)", jl.field, r.fn, r.posStr, r.class)
			}
		}
	}
	sort.SliceStable(stale, func(i, j int) bool { return stale[i].line < stale[j].line })
	return stale
}

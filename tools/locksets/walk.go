package main

import (
	"fmt"
	"go/ast"
	"go/token"
	"go/types"
	"sort"
	"strings"
)

// lockset is a set of lock names.
type lockset map[string]bool

func (s lockset) clone() lockset {
	c := lockset{}
	for k := range s {
		c[k] = true
	}
	return c
}

func (s lockset) equal(o lockset) bool {
	if len(s) != len(o) {
		return false
	}
	for k := range s {
		if !o[k] {
			return false
		}
	}
	return true
}

func (s lockset) sorted() []string {
	out := make([]string, 0, len(s))
	for k := range s {
		out = append(out, k)
	}
	sort.Strings(out)
	return out
}

func (s lockset) String() string { return "{" + strings.Join(s.sorted(), ",") + "}" }

type row struct {
	field  *fieldInfo
	fn     string
	pos    token.Pos
	posStr string
	write  bool
	locks  []string
	class  string // plain | atomic | init | confined | pub | after (owner = tag)
	owner  string
	why    string
}

type callSite struct {
	callee string
	caller string
	posStr string
	held   lockset
}

type rejection struct {
	posStr string
	why    string
}

// fnResult is what the analysis of one function (declaration or literal)
// produced.
type fnResult struct {
	name    string
	posStr  string
	rows    []*row
	calls   []*callSite // calls of *Locked helpers
	rejects []rejection
	syncUse map[string]bool
}

type frame struct {
	label    string
	loop     bool
	entry    lockset
	hasBreak bool
}

// fn is the state of the walk over one function body.
type fn struct {
	p         *pkgData
	res       *fnResult
	out       *[]*fnResult
	held      lockset
	deferred  lockset // unlocked by a defer: held until the function ends
	inherited lockset // entry set of a *Locked helper / inline literal
	frames    []*frame
	nlit      int
	consumed  map[ast.Node]bool
	label     string // pending label for the next statement
}

var lockMethods = map[string]string{
	"Lock": "lock", "RLock": "lock",
	"Unlock": "unlock", "RUnlock": "unlock",
	"TryLock": "try", "TryRLock": "try",
}

// analysePackage analyses every function of the package. entries gives the
// entry lockset of the *Locked helpers.
func (p *pkgData) analysePackage(entries map[string]lockset) []*fnResult {
	var out []*fnResult
	for _, f := range p.files {
		for _, d := range f.Decls {
			switch d := d.(type) {
			case *ast.FuncDecl:
				if d.Body == nil {
					continue
				}
				name := funcDeclName(d)
				p.analyseFunc(name, d.Pos(), d.Body, entries[name], &out)
			case *ast.GenDecl:
				// function literals in package-level initialisers
				if d.Tok != token.VAR {
					continue
				}
				for _, sp := range d.Specs {
					vs := sp.(*ast.ValueSpec)
					if len(vs.Values) == 0 {
						continue
					}
					name := "var"
					if len(vs.Names) > 0 {
						name = "var:" + vs.Names[0].Name
					}
					a := p.newFn(name, vs.Pos(), nil, &out)
					for _, v := range vs.Values {
						a.expr(v)
					}
				}
			}
		}
	}
	return out
}

func (p *pkgData) newFn(name string, pos token.Pos, entry lockset, out *[]*fnResult) *fn {
	res := &fnResult{name: name, posStr: p.posString(pos), syncUse: map[string]bool{}}
	*out = append(*out, res)
	a := &fn{
		p: p, res: res, out: out,
		held: lockset{}, deferred: lockset{}, inherited: lockset{},
		consumed: map[ast.Node]bool{},
	}
	for l := range entry {
		a.held[l] = true
		a.inherited[l] = true
	}
	return a
}

func (p *pkgData) analyseFunc(name string, pos token.Pos, body *ast.BlockStmt, entry lockset, out *[]*fnResult) *fn {
	a := p.newFn(name, pos, entry, out)
	term := a.block(body.List)
	if !term {
		a.checkReturn(body.Rbrace)
	}
	return a
}

func (a *fn) reject(pos token.Pos, format string, args ...any) {
	a.res.rejects = append(a.res.rejects, rejection{a.p.posString(pos), fmt.Sprintf(format, args...)})
}

// checkReturn: leaving the function while holding a lock that is neither
// inherited from the caller nor released by a defer.
func (a *fn) checkReturn(pos token.Pos) {
	for _, l := range a.held.sorted() {
		if !a.deferred[l] && !a.inherited[l] {
			a.reject(pos, "returns while holding %s (no deferred unlock)", l)
		}
	}
}

// ---------------------------------------------------------------- statements

// block walks a statement list; it reports whether control cannot fall out of
// the end of the list.
func (a *fn) block(list []ast.Stmt) bool {
	term := false
	for _, s := range list {
		if a.stmt(s) {
			term = true
		}
	}
	return term
}

// nested walks a nested body with a copy of the held set; a body that can
// fall out with a different set makes the function path-sensitive.
func (a *fn) nested(list []ast.Stmt, what string, pos token.Pos) bool {
	entry := a.held.clone()
	term := a.block(list)
	if !term && !a.held.equal(entry) {
		a.reject(pos, "path-sensitive locking: %s changes the lockset from %s to %s", what, entry, a.held)
	}
	a.held = entry
	return term
}

func (a *fn) push(loop bool, label string) *frame {
	f := &frame{label: label, loop: loop, entry: a.held.clone()}
	a.frames = append(a.frames, f)
	return f
}

func (a *fn) pop() { a.frames = a.frames[:len(a.frames)-1] }

func (a *fn) stmt(s ast.Stmt) (term bool) {
	lbl := a.label
	a.label = ""
	switch s := s.(type) {
	case nil, *ast.EmptyStmt:
	case *ast.ExprStmt:
		if call, ok := unparen(s.X).(*ast.CallExpr); ok {
			if lk, op, base := a.mutexOp(call); lk != "" {
				a.lockOp(lk, op, call.Pos())
				a.base(base, false)
				return false
			}
			if a.isPanic(call) {
				a.expr(s.X)
				return true
			}
		}
		a.expr(s.X)
	case *ast.DeferStmt:
		if lk, op, base := a.mutexOp(s.Call); lk != "" {
			a.res.syncUse[lk] = true
			a.base(base, false)
			switch {
			case op != "unlock":
				a.reject(s.Pos(), "deferred %s of %s", s.Call.Fun.(*ast.SelectorExpr).Sel.Name, lk)
			case !a.held[lk]:
				a.reject(s.Pos(), "deferred unlock of %s which is not held", lk)
			case a.inherited[lk]:
				a.reject(s.Pos(), "deferred unlock of %s which belongs to the caller", lk)
			default:
				a.deferred[lk] = true
			}
			return false
		}
		a.call(s.Call, true)
	case *ast.GoStmt:
		a.call(s.Call, true)
	case *ast.ReturnStmt:
		for _, r := range s.Results {
			a.expr(r)
		}
		a.checkReturn(s.Pos())
		return true
	case *ast.BranchStmt:
		a.branch(s)
		return true
	case *ast.BlockStmt:
		return a.block(s.List) // straight-line: the exit set is the new set
	case *ast.LabeledStmt:
		a.label = s.Label.Name
		return a.stmt(s.Stmt)
	case *ast.AssignStmt:
		for _, r := range s.Rhs {
			a.expr(r)
		}
		for _, l := range s.Lhs {
			if s.Tok == token.DEFINE {
				continue // new (or reassigned local) identifiers only
			}
			a.lhs(l)
		}
	case *ast.IncDecStmt:
		a.lhs(s.X)
	case *ast.SendStmt:
		a.expr(s.Chan)
		a.expr(s.Value)
	case *ast.DeclStmt:
		if gd, ok := s.Decl.(*ast.GenDecl); ok {
			for _, sp := range gd.Specs {
				if vs, ok := sp.(*ast.ValueSpec); ok {
					for _, v := range vs.Values {
						a.expr(v)
					}
				}
			}
		}
	case *ast.IfStmt:
		return a.ifStmt(s)
	case *ast.ForStmt:
		if s.Init != nil {
			a.stmt(s.Init)
		}
		f := a.push(true, lbl)
		a.expr(s.Cond)
		a.nested(append(append([]ast.Stmt{}, s.Body.List...), s.Post), "the for body", s.Pos())
		a.pop()
		return s.Cond == nil && !f.hasBreak // for {} without break never falls out
	case *ast.RangeStmt:
		a.expr(s.X)
		if s.Tok == token.ASSIGN {
			a.lhs(s.Key)
			a.lhs(s.Value)
		}
		a.push(true, lbl)
		a.nested(s.Body.List, "the range body", s.Pos())
		a.pop()
	case *ast.SwitchStmt:
		if s.Init != nil {
			a.stmt(s.Init)
		}
		a.expr(s.Tag)
		return a.clauses(s.Body, "a switch case", false, lbl)
	case *ast.TypeSwitchStmt:
		if s.Init != nil {
			a.stmt(s.Init)
		}
		switch as := s.Assign.(type) {
		case *ast.ExprStmt:
			a.expr(as.X)
		case *ast.AssignStmt:
			for _, r := range as.Rhs {
				a.expr(r)
			}
		}
		return a.clauses(s.Body, "a type switch case", false, lbl)
	case *ast.SelectStmt:
		return a.clauses(s.Body, "a select case", true, lbl)
	default:
		a.reject(s.Pos(), "unsupported statement %T", s)
	}
	return false
}

func (a *fn) ifStmt(s *ast.IfStmt) bool {
	if s.Init != nil {
		a.stmt(s.Init)
	}
	a.expr(s.Cond)
	t1 := a.nested(s.Body.List, "the if body", s.Body.Pos())
	switch e := s.Else.(type) {
	case nil:
		return false
	case *ast.BlockStmt:
		t2 := a.nested(e.List, "the else body", e.Pos())
		return t1 && t2
	case *ast.IfStmt:
		entry := a.held.clone()
		t2 := a.ifStmt(e)
		if !a.held.equal(entry) {
			a.reject(e.Pos(), "path-sensitive locking: else-if changes the lockset")
		}
		a.held = entry
		return t1 && t2
	}
	return false
}

// clauses walks the clauses of a switch / type switch / select.
func (a *fn) clauses(body *ast.BlockStmt, what string, isSelect bool, lbl string) bool {
	f := a.push(false, lbl)
	defer a.pop()
	allTerm, hasDefault := true, false
	for _, c := range body.List {
		var list []ast.Stmt
		switch c := c.(type) {
		case *ast.CaseClause:
			if c.List == nil {
				hasDefault = true
			}
			for _, e := range c.List {
				a.expr(e)
			}
			list = c.Body
		case *ast.CommClause:
			if c.Comm == nil {
				hasDefault = true
			} else {
				a.stmt(c.Comm)
			}
			list = c.Body
		}
		if !a.nested(list, what, c.Pos()) {
			allTerm = false
		}
	}
	if f.hasBreak {
		return false
	}
	if isSelect {
		return allTerm // a select without default blocks until some case runs
	}
	return allTerm && hasDefault
}

func (a *fn) branch(s *ast.BranchStmt) {
	if s.Tok == token.GOTO {
		a.reject(s.Pos(), "goto is not supported")
		return
	}
	var target *frame
	for i := len(a.frames) - 1; i >= 0; i-- {
		f := a.frames[i]
		if s.Label != nil {
			if f.label == s.Label.Name {
				target = f
				break
			}
			continue
		}
		if s.Tok == token.CONTINUE && !f.loop {
			continue
		}
		target = f
		break
	}
	if target == nil {
		a.reject(s.Pos(), "%s without an enclosing statement", s.Tok)
		return
	}
	if s.Tok == token.BREAK {
		target.hasBreak = true
	}
	if !a.held.equal(target.entry) {
		a.reject(s.Pos(), "path-sensitive locking: %s with lockset %s, enclosing statement was entered with %s", s.Tok, a.held, target.entry)
	}
}

func (a *fn) isPanic(call *ast.CallExpr) bool {
	switch f := unparen(call.Fun).(type) {
	case *ast.Ident:
		if f.Name == "panic" {
			_, isBuiltin := a.p.info.Uses[f].(*types.Builtin)
			return isBuiltin || a.p.info.Uses[f] == nil
		}
	case *ast.SelectorExpr:
		// log.Panic().Msg(..) / log.Panicf(..): a call chain rooted at a
		// package function whose name starts with Panic.
		for {
			switch x := unparen(f.X).(type) {
			case *ast.CallExpr:
				inner, ok := unparen(x.Fun).(*ast.SelectorExpr)
				if !ok {
					return false
				}
				f = inner
				continue
			case *ast.Ident:
				return a.p.importPath(nil, x) != "" && strings.HasPrefix(f.Sel.Name, "Panic")
			}
			return false
		}
	}
	return false
}

// mutexOp recognises x.mu.Lock() / x.protected.Unlock() on a tracked lock.
// base is the expression below the lock field.
func (a *fn) mutexOp(call *ast.CallExpr) (lock, op string, base ast.Expr) {
	sel, ok := unparen(call.Fun).(*ast.SelectorExpr)
	if !ok {
		return
	}
	o, ok := lockMethods[sel.Sel.Name]
	if !ok {
		return
	}
	x, ok := unparen(sel.X).(*ast.SelectorExpr)
	if !ok {
		return
	}
	fi := a.field(x)
	if fi == nil || fi.lock == "" {
		return
	}
	return fi.lock, o, x.X
}

func (a *fn) lockOp(lk, op string, pos token.Pos) {
	a.res.syncUse[lk] = true
	switch op {
	case "lock":
		if a.held[lk] {
			a.reject(pos, "lock of %s which is already held", lk)
		}
		a.held[lk] = true
	case "unlock":
		switch {
		case a.deferred[lk]:
			a.reject(pos, "explicit unlock of %s after a deferred unlock", lk)
		case a.inherited[lk]:
			a.reject(pos, "unlock of %s which belongs to the caller", lk)
		case !a.held[lk]:
			a.reject(pos, "unlock of %s which is not held", lk)
		}
		delete(a.held, lk)
	default:
		a.reject(pos, "TryLock of %s is not supported", lk)
	}
}

// --------------------------------------------------------------- expressions

func unparen(e ast.Expr) ast.Expr {
	for {
		p, ok := e.(*ast.ParenExpr)
		if !ok {
			return e
		}
		e = p.X
	}
}

// field resolves a selector to a tracked field.
func (a *fn) field(e *ast.SelectorExpr) *fieldInfo {
	if sel := a.p.info.Selections[e]; sel != nil && sel.Kind() == types.FieldVal {
		if v, ok := sel.Obj().(*types.Var); ok {
			return a.p.fields[v]
		}
	}
	return nil
}

func (a *fn) isValueAggregate(e ast.Expr) bool {
	tv, ok := a.p.info.Types[e]
	if !ok || tv.Type == nil {
		return false
	}
	switch tv.Type.Underlying().(type) {
	case *types.Struct, *types.Array:
		return true
	}
	return false
}

func (a *fn) emit(fi *fieldInfo, pos token.Pos, write bool, class, why string) {
	for _, leaf := range fi.leaves() {
		a.res.rows = append(a.res.rows, &row{
			field: leaf, fn: a.res.name, pos: pos, posStr: a.p.posString(pos),
			write: write, locks: a.held.sorted(), class: class, why: why,
		})
	}
	if fi.kind == kMutex || fi.kind == kSyncObj {
		a.res.syncUse[fi.name] = true
	}
}

// selector handles x.f in read (write=false) or write position.
func (a *fn) selector(e *ast.SelectorExpr, write bool) {
	fi := a.field(e)
	if fi == nil {
		if !a.consumed[e] {
			a.lockedRef(e, e.Sel)
		}
		if write && a.isValueAggregate(e.X) {
			a.lhs(e.X) // x.s.g = v writes into the memory of x.s
		} else {
			a.expr(e.X)
		}
		return
	}
	a.emit(fi, e.Pos(), write, "plain", "")
	a.base(e.X, write)
}

// base walks the expression below a tracked field; anonymous-struct
// containers on the way are not accesses of their own.
func (a *fn) base(x ast.Expr, write bool) {
	x = unparen(x)
	if sel, ok := x.(*ast.SelectorExpr); ok {
		if fi := a.field(sel); fi != nil && fi.kind == kContainer {
			a.base(sel.X, write)
			return
		}
	}
	if write && a.isValueAggregate(x) {
		a.lhs(x)
	} else {
		a.expr(x)
	}
}

// lhs handles an assignment target (also ++/--, op=, delete's map, &x.f).
func (a *fn) lhs(e ast.Expr) {
	e = unparen(e)
	switch e := e.(type) {
	case nil, *ast.Ident:
	case *ast.SelectorExpr:
		a.selector(e, true)
	case *ast.IndexExpr:
		a.expr(e.Index)
		x := unparen(e.X)
		if sel, ok := x.(*ast.SelectorExpr); ok && a.field(sel) != nil {
			a.selector(sel, true) // x.f[k] = v: write of the map/slice field
		} else if a.isValueAggregate(x) {
			a.lhs(x)
		} else {
			a.expr(x)
		}
	case *ast.StarExpr:
		a.expr(e.X)
	default:
		a.expr(e)
	}
}

func (a *fn) expr(e ast.Expr) {
	switch e := e.(type) {
	case nil, *ast.BasicLit:
	case *ast.Ident:
		if !a.consumed[e] {
			a.lockedRef(e, e)
		}
	case *ast.ParenExpr:
		a.expr(e.X)
	case *ast.SelectorExpr:
		a.selector(e, false)
	case *ast.IndexExpr:
		a.expr(e.X)
		a.expr(e.Index)
	case *ast.IndexListExpr:
		a.expr(e.X)
		for _, i := range e.Indices {
			a.expr(i)
		}
	case *ast.SliceExpr:
		a.expr(e.X)
		a.expr(e.Low)
		a.expr(e.High)
		a.expr(e.Max)
	case *ast.StarExpr:
		a.expr(e.X)
	case *ast.UnaryExpr:
		if e.Op == token.AND {
			a.addrOf(e.X)
		} else {
			a.expr(e.X)
		}
	case *ast.BinaryExpr:
		a.expr(e.X)
		a.expr(e.Y)
	case *ast.KeyValueExpr:
		a.expr(e.Key)
		a.expr(e.Value)
	case *ast.TypeAssertExpr:
		a.expr(e.X)
	case *ast.CallExpr:
		a.call(e, false)
	case *ast.CompositeLit:
		a.compositeLit(e)
	case *ast.FuncLit:
		a.funcLit(e, nil)
	case *ast.ArrayType, *ast.MapType, *ast.ChanType, *ast.FuncType,
		*ast.StructType, *ast.InterfaceType, *ast.Ellipsis:
	default:
		a.reject(e.Pos(), "unsupported expression %T", e)
	}
}

// addrOf: &x.f outside a sync/atomic call lets the field escape: a write.
func (a *fn) addrOf(x ast.Expr) {
	x = unparen(x)
	switch x := x.(type) {
	case *ast.SelectorExpr:
		if a.field(x) != nil {
			a.selector(x, true)
			return
		}
	case *ast.IndexExpr:
		if sel, ok := unparen(x.X).(*ast.SelectorExpr); ok && a.field(sel) != nil {
			a.lhs(x)
			return
		}
	}
	a.expr(x)
}

func (a *fn) compositeLit(e *ast.CompositeLit) {
	var st *types.Struct
	tracked := false
	if tv, ok := a.p.info.Types[e]; ok && tv.Type != nil {
		t := tv.Type
		if n, ok := t.(*types.Named); ok && a.p.tracked[n.Obj()] {
			tracked = true
		}
		st, _ = t.Underlying().(*types.Struct)
	}
	for i, el := range e.Elts {
		if kv, ok := el.(*ast.KeyValueExpr); ok {
			if id, ok := kv.Key.(*ast.Ident); ok && st != nil {
				if v, ok := a.p.info.Uses[id].(*types.Var); ok && v.IsField() {
					if fi := a.p.fields[v]; fi != nil {
						a.emit(fi, id.Pos(), true, "init", "composite literal")
					}
					a.expr(kv.Value)
					continue
				}
			}
			a.expr(kv.Key)
			a.expr(kv.Value)
			continue
		}
		if tracked && st != nil && i < st.NumFields() {
			if fi := a.p.fields[st.Field(i)]; fi != nil {
				a.emit(fi, el.Pos(), true, "init", "composite literal")
			}
		}
		a.expr(el)
	}
}

// funcLit analyses a function literal as a function of its own. entry == nil:
// a separate function starting with the empty set (go / defer / callback).
func (a *fn) funcLit(lit *ast.FuncLit, entry lockset) *fn {
	a.nlit++
	name := fmt.Sprintf("%s$func%d", a.res.name, a.nlit)
	return a.p.analyseFunc(name, lit.Pos(), lit.Body, entry, a.out)
}

var atomicWrite = []string{"Add", "Store", "Swap", "CompareAndSwap", "And", "Or"}

func isAtomicWrite(name string) bool {
	if strings.HasPrefix(name, "Load") {
		return false
	}
	for _, p := range atomicWrite {
		if strings.HasPrefix(name, p) {
			return true
		}
	}
	return true // unknown operation: assume it writes
}

func (a *fn) call(c *ast.CallExpr, async bool) {
	fun := unparen(c.Fun)
	args := c.Args

	switch f := fun.(type) {
	case *ast.FuncLit:
		if async {
			a.funcLit(f, nil)
		} else {
			// immediately invoked: runs here, with the current set; lock
			// operations inside it are not propagated, so refuse them.
			sub := a.funcLit(f, a.held)
			for l := range sub.res.syncUse {
				for _, pl := range a.p.locks {
					if pl == l {
						a.reject(f.Pos(), "lock operation on %s inside an immediately invoked literal", l)
					}
				}
			}
		}
		for _, x := range args {
			a.expr(x)
		}
		return
	case *ast.Ident:
		if b, ok := a.p.info.Uses[f].(*types.Builtin); ok && len(args) > 0 {
			switch b.Name() {
			case "delete", "clear", "copy":
				a.lhs(args[0]) // concurrent map write / element writes
				for _, x := range args[1:] {
					a.expr(x)
				}
				return
			}
		}
	case *ast.SelectorExpr:
		// atomic.AddUint64(&x.f, 1)
		if id, ok := unparen(f.X).(*ast.Ident); ok && a.p.importPath(nil, id) == "sync/atomic" && len(args) > 0 {
			if u, ok := unparen(args[0]).(*ast.UnaryExpr); ok && u.Op == token.AND {
				if sel, ok := unparen(u.X).(*ast.SelectorExpr); ok {
					if fi := a.field(sel); fi != nil && (fi.kind == kData || fi.kind == kAtomic) {
						a.emit(fi, sel.Pos(), isAtomicWrite(f.Sel.Name), "atomic", "atomic."+f.Sel.Name)
						a.base(sel.X, false)
						for _, x := range args[1:] {
							a.expr(x)
						}
						return
					}
				}
			}
		}
		if lk, _, _ := a.mutexOp(c); lk != "" {
			a.res.syncUse[lk] = true
			a.reject(c.Pos(), "%s of %s in expression position", f.Sel.Name, lk)
			for _, x := range args {
				a.expr(x)
			}
			return
		}
		if x, ok := unparen(f.X).(*ast.SelectorExpr); ok {
			if fi := a.field(x); fi != nil && a.p.info.Selections[f] == nil {
				switch fi.kind {
				case kAtomic: // x.f.Load()
					a.emit(fi, x.Pos(), isAtomicWrite(f.Sel.Name), "atomic", fi.decl+"."+f.Sel.Name)
					a.base(x.X, false)
					for _, y := range args {
						a.expr(y)
					}
					return
				case kMutex, kSyncObj: // x.wg.Wait()
					a.res.syncUse[fi.name] = true
					a.base(x.X, false)
					for _, y := range args {
						a.expr(y)
					}
					return
				}
			}
		}
	}

	// calls of *Locked helpers
	var id *ast.Ident
	switch f := fun.(type) {
	case *ast.Ident:
		id = f
	case *ast.SelectorExpr:
		id = f.Sel
	}
	if id != nil {
		for _, callee := range a.lockedCallees(id) {
			held := a.held.clone()
			if async {
				held = lockset{} // go f() / defer f(): not under the current set
			}
			a.res.calls = append(a.res.calls, &callSite{
				callee: callee, caller: a.res.name, posStr: a.p.posString(c.Pos()), held: held,
			})
			a.consumed[fun] = true
		}
	}
	a.expr(c.Fun)
	for _, x := range args {
		a.expr(x)
	}
}

// lockedCallees resolves an identifier to *Locked helpers of this package.
func (a *fn) lockedCallees(id *ast.Ident) []string {
	if !strings.HasSuffix(id.Name, "Locked") {
		return nil
	}
	if obj, ok := a.p.info.Uses[id]; ok {
		if f, ok := obj.(*types.Func); ok {
			if n, ok := a.p.funcName[f]; ok && a.p.locked[n] {
				return []string{n}
			}
		}
		if _, isVar := obj.(*types.Var); isVar {
			return nil
		}
	}
	return a.p.lockedBy[id.Name] // unresolved: by bare name
}

// lockedRef: a *Locked helper used as a value (not called): it may run
// anywhere, i.e. without locks.
func (a *fn) lockedRef(node ast.Node, id *ast.Ident) {
	for _, callee := range a.lockedCallees(id) {
		a.res.calls = append(a.res.calls, &callSite{
			callee: callee, caller: a.res.name, posStr: a.p.posString(node.Pos()), held: lockset{},
		})
	}
}

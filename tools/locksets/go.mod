module locksets

go 1.26.8

package main

import (
	"fmt"
	"go/ast"
	"go/build"
	"go/parser"
	"go/token"
	"go/types"
	"os"
	"path"
	"path/filepath"
	"sort"
	"strings"
)

// trackedTable lists, per package directory (relative to -repo), the structs
// whose field accesses are tabulated. Extend here.
var trackedTable = []struct {
	dir     string
	structs []string
}{
	{"internal/client", []string{"RpcMultiplexer", "respHandler", "clientStream"}},
	{"internal/server", []string{"serverStream", "unaryServerTransportStream"}},
	{".", []string{
		"handler", "streamHandler", // server.go
		"Server",
		"Proxy", "proxyClient",
		"Demux", "demuxConn",
		"GoatOverHttp", "httpReadWriter",
		"ClientConn",
	}},
}

type fieldKind int

const (
	kData      fieldKind = iota // ordinary data: gets rows
	kAtomic                     // declared atomic.*: method calls are class atomic
	kMutex                      // sync.Mutex / sync.RWMutex: a lock, no rows
	kSyncObj                    // sync.WaitGroup / sync.Once / sync.Cond: no rows
	kContainer                  // anonymous sub-struct: rows are per sub-field
)

// fieldInfo describes one (possibly nested) field of a tracked struct.
type fieldInfo struct {
	name string // "clientStream.protected.done"
	kind fieldKind
	// lock is the lock name when the field can be locked: the field itself for
	// kMutex, the container for an anonymous struct embedding sync.Mutex.
	lock string
	subs []*fieldInfo // direct sub-fields of a container
	decl string       // type expression as written
}

// leaves returns the data/atomic fields reachable below f (f itself if it is
// not a container).
func (f *fieldInfo) leaves() []*fieldInfo {
	switch f.kind {
	case kData, kAtomic:
		return []*fieldInfo{f}
	case kContainer:
		var out []*fieldInfo
		for _, s := range f.subs {
			out = append(out, s.leaves()...)
		}
		return out
	}
	return nil
}

type pkgData struct {
	rel   string // directory relative to the repo root
	fset  *token.FileSet
	files []*ast.File
	info  *types.Info
	pkg   *types.Package

	fields    map[*types.Var]*fieldInfo
	allFields []*fieldInfo // every field incl. containers and sync objects
	tracked   map[*types.TypeName]bool
	funcName  map[*types.Func]string
	locked    map[string]bool     // names of *Locked helpers
	lockedBy  map[string][]string // bare name -> helper names
	imports   map[*ast.File]map[string]string
	fileOf    map[*ast.File]string
	locks     []string
	missing   []string // tracked struct names not found
	repoRoot  string
	typeErrs  int
	firstErrs []string
}

// fakeImporter satisfies every import with an empty package: everything that
// comes from a dependency has an invalid type, local types still resolve.
type fakeImporter struct{ cache map[string]*types.Package }

func (fi *fakeImporter) Import(p string) (*types.Package, error) {
	if pkg, ok := fi.cache[p]; ok {
		return pkg, nil
	}
	name := path.Base(p)
	if len(name) > 1 && name[0] == 'v' && strings.Trim(name[1:], "0123456789") == "" {
		name = path.Base(path.Dir(p)) // .../foo/v2 -> foo
	}
	name = strings.NewReplacer("-", "_", ".", "_").Replace(name)
	pkg := types.NewPackage(p, name)
	pkg.MarkComplete()
	fi.cache[p] = pkg
	return pkg, nil
}

func loadPackage(repo, rel string, structs []string) (*pkgData, error) {
	dir := filepath.Join(repo, rel)
	ents, err := os.ReadDir(dir)
	if err != nil {
		return nil, err
	}
	ctx := build.Default // no extra tags: in particular not "verif"
	ctx.BuildTags = nil
	ctx.CgoEnabled = false
	p := &pkgData{
		rel:      rel,
		fset:     token.NewFileSet(),
		fields:   map[*types.Var]*fieldInfo{},
		tracked:  map[*types.TypeName]bool{},
		funcName: map[*types.Func]string{},
		locked:   map[string]bool{},
		lockedBy: map[string][]string{},
		imports:  map[*ast.File]map[string]string{},
		fileOf:   map[*ast.File]string{},
		repoRoot: repo,
	}
	var names []string
	for _, e := range ents {
		n := e.Name()
		if e.IsDir() || !strings.HasSuffix(n, ".go") || strings.HasSuffix(n, "_test.go") {
			continue
		}
		ok, err := ctx.MatchFile(dir, n)
		if err != nil {
			return nil, fmt.Errorf("%s: %v", filepath.Join(dir, n), err)
		}
		if ok {
			names = append(names, n)
		}
	}
	sort.Strings(names)
	if len(names) == 0 {
		return nil, fmt.Errorf("%s: no buildable Go files", dir)
	}
	pkgName := ""
	for _, n := range names {
		f, err := parser.ParseFile(p.fset, filepath.Join(dir, n), nil, parser.ParseComments|parser.SkipObjectResolution)
		if err != nil {
			return nil, err
		}
		if pkgName == "" {
			pkgName = f.Name.Name
		} else if f.Name.Name != pkgName {
			continue // stray package clause (e.g. package main helper); ignore
		}
		p.files = append(p.files, f)
		p.fileOf[f] = filepath.ToSlash(filepath.Join(rel, n))
		im := map[string]string{}
		for _, is := range f.Imports {
			ipath := strings.Trim(is.Path.Value, "\"`")
			name := ""
			if is.Name != nil {
				name = is.Name.Name
			} else {
				pk, _ := (&fakeImporter{cache: map[string]*types.Package{}}).Import(ipath)
				name = pk.Name()
			}
			im[name] = ipath
		}
		p.imports[f] = im
	}
	p.info = &types.Info{
		Types:      map[ast.Expr]types.TypeAndValue{},
		Defs:       map[*ast.Ident]types.Object{},
		Uses:       map[*ast.Ident]types.Object{},
		Selections: map[*ast.SelectorExpr]*types.Selection{},
		Implicits:  map[ast.Node]types.Object{},
	}
	conf := types.Config{
		Importer: &fakeImporter{cache: map[string]*types.Package{}},
		Error: func(err error) {
			p.typeErrs++
			if len(p.firstErrs) < 3 {
				p.firstErrs = append(p.firstErrs, err.Error())
			}
		},
		DisableUnusedImportCheck: true,
	}
	p.pkg, _ = conf.Check("pkg/"+rel, p.fset, p.files, p.info)
	if p.pkg == nil {
		return nil, fmt.Errorf("%s: type checking produced no package", dir)
	}

	// Struct declarations of the tracked structs.
	want := map[string]bool{}
	for _, s := range structs {
		want[s] = true
	}
	found := map[string]bool{}
	for _, f := range p.files {
		for _, d := range f.Decls {
			gd, ok := d.(*ast.GenDecl)
			if !ok || gd.Tok != token.TYPE {
				continue
			}
			for _, sp := range gd.Specs {
				ts := sp.(*ast.TypeSpec)
				st, ok := ts.Type.(*ast.StructType)
				if !ok || !want[ts.Name.Name] {
					continue
				}
				found[ts.Name.Name] = true
				if tn, ok := p.info.Defs[ts.Name].(*types.TypeName); ok {
					p.tracked[tn] = true
				}
				p.addStruct(f, ts.Name.Name, st, nil)
			}
		}
	}
	for _, s := range structs {
		if !found[s] {
			p.missing = append(p.missing, s)
		}
	}

	// Function names; *Locked helpers.
	for _, f := range p.files {
		for _, d := range f.Decls {
			fd, ok := d.(*ast.FuncDecl)
			if !ok {
				continue
			}
			name := funcDeclName(fd)
			if fn, ok := p.info.Defs[fd.Name].(*types.Func); ok {
				p.funcName[fn] = name
			}
			if strings.HasSuffix(fd.Name.Name, "Locked") {
				p.locked[name] = true
				p.lockedBy[fd.Name.Name] = append(p.lockedBy[fd.Name.Name], name)
			}
		}
	}
	for _, f := range p.allFields {
		if f.lock != "" {
			p.locks = append(p.locks, f.lock)
		}
	}
	sort.Strings(p.locks)
	return p, nil
}

// addStruct records the fields of one struct declaration (recursively for
// anonymous sub-structs). Kinds are decided from the type EXPRESSION, since
// imported types are invalid under the fake importer.
func (p *pkgData) addStruct(file *ast.File, prefix string, st *ast.StructType, parent *fieldInfo) {
	for _, fld := range st.Fields.List {
		kind, decl := p.classify(file, fld.Type)
		if len(fld.Names) == 0 {
			// embedded field
			if kind == kMutex && parent != nil {
				parent.lock = parent.name
			} else if kind == kMutex {
				// sync.Mutex embedded directly in a tracked struct: x.Lock()
				// is not recognised by this tool; record it so that the
				// reader sees it, under the struct's own name.
				fi := &fieldInfo{name: prefix + "." + embeddedName(fld.Type), kind: kMutex, decl: decl}
				fi.lock = fi.name
				p.allFields = append(p.allFields, fi)
			} else {
				fi := &fieldInfo{name: prefix + "." + embeddedName(fld.Type), kind: kind, decl: decl}
				p.allFields = append(p.allFields, fi)
			}
			continue
		}
		for _, id := range fld.Names {
			fi := &fieldInfo{name: prefix + "." + id.Name, kind: kind, decl: decl}
			if kind == kMutex {
				fi.lock = fi.name
			}
			if v, ok := p.info.Defs[id].(*types.Var); ok {
				p.fields[v] = fi
			}
			p.allFields = append(p.allFields, fi)
			if parent != nil {
				parent.subs = append(parent.subs, fi)
			}
			if sub, ok := fld.Type.(*ast.StructType); ok {
				p.addStruct(file, fi.name, sub, fi)
			}
		}
	}
}

func embeddedName(e ast.Expr) string {
	switch e := e.(type) {
	case *ast.Ident:
		return e.Name
	case *ast.SelectorExpr:
		return e.Sel.Name
	case *ast.StarExpr:
		return embeddedName(e.X)
	case *ast.IndexExpr:
		return embeddedName(e.X)
	}
	return "?"
}

func (p *pkgData) classify(file *ast.File, e ast.Expr) (fieldKind, string) {
	decl := types.ExprString(e)
	switch t := e.(type) {
	case *ast.StructType:
		return kContainer, "struct{...}"
	case *ast.SelectorExpr:
		if id, ok := t.X.(*ast.Ident); ok {
			switch p.importPath(file, id) {
			case "sync":
				switch t.Sel.Name {
				case "Mutex", "RWMutex":
					return kMutex, decl
				case "WaitGroup", "Once", "Cond":
					return kSyncObj, decl
				}
			case "sync/atomic":
				return kAtomic, decl
			}
		}
	case *ast.IndexExpr: // atomic.Pointer[T]
		if k, _ := p.classify(file, t.X); k == kAtomic {
			return kAtomic, decl
		}
	}
	return kData, decl
}

// importPath resolves a package identifier to its import path ("" if it is
// not a package name).
func (p *pkgData) importPath(file *ast.File, id *ast.Ident) string {
	if obj, ok := p.info.Uses[id]; ok {
		if pn, ok := obj.(*types.PkgName); ok {
			return pn.Imported().Path()
		}
		return ""
	}
	if file != nil {
		return p.imports[file][id.Name]
	}
	return ""
}

func funcDeclName(fd *ast.FuncDecl) string {
	if fd.Recv == nil || len(fd.Recv.List) == 0 {
		return fd.Name.Name
	}
	t := fd.Recv.List[0].Type
	ptr := false
	if s, ok := t.(*ast.StarExpr); ok {
		ptr = true
		t = s.X
	}
	switch x := t.(type) {
	case *ast.IndexExpr:
		t = x.X
	case *ast.IndexListExpr:
		t = x.X
	}
	n := types.ExprString(t)
	if ptr {
		return "(*" + n + ")." + fd.Name.Name
	}
	return "(" + n + ")." + fd.Name.Name
}

func (p *pkgData) posString(pos token.Pos) string {
	ps := p.fset.Position(pos)
	rel, err := filepath.Rel(p.repoRoot, ps.Filename)
	if err != nil {
		rel = ps.Filename
	}
	return fmt.Sprintf("%s:%d:%d", filepath.ToSlash(rel), ps.Line, ps.Column)
}

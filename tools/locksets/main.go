// locksets: source-derived access table for property C15 (data-race freedom,
// static half). Eraser-style lockset analysis of github.com/avos-io/goat.
//
//	export GOFLAGS=-mod=mod GOPROXY=off GOSUMDB=off GOTOOLCHAIN=local
//	cd /verif/tools/locksets && go1.26.8 run . -repo /repo [-justify justify.txt] [-v]
//
// # What is analysed
//
// The non-test Go files of the packages listed in trackedTable (load.go), as
// a normal build WITHOUT the tag "verif" selects them. For every selector
// expression that go/types resolves to a field of a tracked struct (nested
// anonymous structs give names like clientStream.protected.done) one ROW is
// produced: function, position, read/write, the mutexes held at that point and
// a class:
//
//	plain     ordinary access; safe against another row only through a common lock
//	atomic    sync/atomic function on &x.f, or method of a field declared atomic.*
//	init      key of a composite literal of the struct (the object does not
//	          exist yet), or an "init" line of justify.txt
//	confined  a "confined:<owner>" line of justify.txt: all rows with that
//	          owner run in one goroutine per object
//	pub:<tag> a "pub:<tag>" line: FIELD-level publication. The object is already
//	          shared; one goroutine per object writes the field and afterwards
//	          starts (go) / messages (channel send) the goroutines that use it
//	after:<tag> an "after:<tag>" line: a site run only by goroutines that the
//	          pub:<tag> writer started / messaged after its write. One line per
//	          site, no wildcard: a site nobody listed stays plain
//
// Writes are: assignment / op= / ++ / -- targets (including x.f[k] = v and the
// enclosing struct-valued fields of a nested target), delete/clear/copy
// destinations, &x.f outside sync/atomic calls. Everything else is a read
// (sending on / receiving from / closing a channel field reads the field).
//
// Locks held: each function body is walked statement by statement. x.mu.Lock()
// adds "Struct.mu" (for an anonymous struct embedding sync.Mutex the lock is
// named after the container: clientStream.protected, GoatOverHttp.conns),
// Unlock removes it, "defer x.mu.Unlock()" keeps it until the function ends.
// Nested bodies (if/for/range/switch/select) are walked with a copy; if
// control can fall out of such a body, or break/continue out of it, with a
// different set, the function is REJECTED (path-sensitive), as it is for
// goto, TryLock, a lock operation in expression position, unlocking a mutex
// that is not held / has a deferred unlock / belongs to the caller, locking a
// mutex twice, or returning with a lock held. A rejected function gets an
// "unanalysed" record and its rows are kept with the EMPTY lockset (the only
// sound guess). Function literals are functions of their own
// (<outer>$funcN, numbered in source order per enclosing function) and start
// with the empty set, also when deferred; only an immediately invoked literal
// starts with the current set (a lock operation inside one rejects the outer
// function). A function whose name ends in "Locked" starts
// with the intersection of the sets held at all its call sites in the package
// ("go f()", "defer f()" and uses as a value count as call sites without
// locks); no call site or an empty intersection rejects it. All other
// functions start with the empty set.
//
// The pairwise predicate (also evaluated here, "unsafe_pairs"): two rows of
// one field, possibly the same row twice, are SAFE iff both are reads, or
// both atomic, or one is init (object-level), or both confined with the same
// owner, or both pub with the same tag, or one pub:<tag> and the other
// after:<tag>, or their locksets intersect. In particular a pub write and a
// plain site without a common lock are UNSAFE.
//
// # Output (stdout, JSON lines, deterministic)
//
//	names       sorted name tables; ids in Coq terms are indices into them
//	field       rows of one field + Coq term "CField id [mkRow ...]" + unsafe_pairs
//	stale       a justify.txt line that is malformed, names no tracked field /
//	            no function accessing it, or an "immutable" that is violated
//	unanalysed  a rejected function that touches tracked state
//	note        statistics; rejected functions that touch nothing tracked
//
// Exit status 0 whenever the analysis ran; verdicts are data.
//
// # What is trusted
//
//   - this tool (in particular go/types run with an importer that returns
//     EMPTY packages: only expressions whose static type is declared in the
//     analysed package resolve; mutex/atomic fields are recognised from the
//     declared type expression sync.Mutex, sync.RWMutex, atomic.*);
//   - justify.txt: every init / confined / pub / after line is a hand-made argument. The
//     tool only checks that the named field and function exist and that the
//     function really accesses the field (staleness), nothing else;
//   - the pairwise predicate itself (C15's Coq side restates it).
//
// # What is NOT seen
//
//   - local variables captured by closures (e.g. rErr/trailer/abort of
//     clientStream.readLoop) and package-level variables;
//   - the elements behind a slice/map/pointer field: only the field (header)
//     is tracked, x.f[k] = v counts as a write of x.f but the pointee of a
//     *T stored in the map is a separate object;
//   - protobuf messages and other values shared by reference through
//     channels or arguments (rpc.Header.ProxyRecord = append(...) in the proxy);
//   - anything inside dependencies (grpc, zerolog, clockwork, ...), and
//     accesses made by reflection or through interfaces of imported types;
//   - aliasing through pointers: &x.f is counted as one write at the place
//     where the address is taken, later uses of the pointer are invisible;
//     whole-struct copies (*p = T{...}, v := *p) are invisible;
//   - fields promoted through embedded structs, and a sync.Mutex embedded
//     directly in a tracked struct (x.Lock()): not used by the code today;
//   - happens-before edges other than mutexes: channel operations, go
//     statements, WaitGroup, context cancellation. Where the code relies on
//     them the row needs a justify.txt line;
//   - callers outside the analysed packages (tests, users of the library):
//     an exported method is assumed to be callable from any goroutine.
package main

import (
	"encoding/json"
	"flag"
	"fmt"
	"os"
	"path/filepath"
	"runtime"
	"sort"
	"strings"
)

type rowJSON struct {
	Func  string   `json:"func"`
	Pos   string   `json:"pos"`
	Write bool     `json:"write"`
	Locks []string `json:"locks"`
	Class string   `json:"class"`
	Why   string   `json:"why"`
}

func main() {
	repo := flag.String("repo", "/repo", "root of the goat source tree")
	justify := flag.String("justify", "", "justification file (default ./justify.txt, then justify.txt next to the tool's source)")
	verbose := flag.Bool("v", false, "human-readable report on stderr")
	flag.Usage = func() {
		fmt.Fprintf(os.Stderr, "usage: locksets [-repo dir] [-justify file] [-v]\n")
		flag.PrintDefaults()
	}
	flag.Parse()
	if flag.NArg() != 0 {
		flag.Usage()
		os.Exit(2)
	}
	root, err := filepath.Abs(*repo)
	if err != nil {
		fatal(err)
	}

	jfile, explicit := *justify, *justify != ""
	if !explicit {
		cands := []string{"justify.txt"}
		if _, src, _, ok := runtime.Caller(0); ok {
			cands = append(cands, filepath.Join(filepath.Dir(src), "justify.txt"))
		}
		for _, c := range cands {
			if _, err := os.Stat(c); err == nil {
				jfile = c
				break
			}
		}
	}
	var jlines []*jline
	if jfile != "" {
		jlines, err = parseJustify(jfile)
		if err != nil {
			fatal(err)
		}
	} else {
		fmt.Fprintln(os.Stderr, "locksets: no justify.txt found, continuing without justifications")
	}

	// ------------------------------------------------------------ analysis
	var results []*fnResult
	var allFields []*fieldInfo
	var notes []string
	for _, t := range trackedTable {
		p, err := loadPackage(root, t.dir, t.structs)
		if err != nil {
			fatal(err)
		}
		if len(p.missing) > 0 {
			fatal(fmt.Errorf("%s: tracked structs not found: %s", t.dir, strings.Join(p.missing, ", ")))
		}
		allFields = append(allFields, p.allFields...)
		notes = append(notes, fmt.Sprintf("%s: %d files, %d type errors ignored (fake importer)", t.dir, len(p.files), p.typeErrs))
		results = append(results, analyseWithHelpers(p)...)
	}

	// Rejected functions: rows keep the empty lockset.
	type unan struct {
		fn, pos, why string
		fields       []string
	}
	var unanalysed []unan
	var irrelevant []string
	for _, r := range results {
		if len(r.rejects) == 0 {
			continue
		}
		var whys []string
		for _, rj := range r.rejects {
			whys = append(whys, rj.posStr+": "+rj.why)
		}
		if len(r.rows) == 0 && len(r.calls) == 0 {
			irrelevant = append(irrelevant, r.name+" ("+strings.Join(whys, "; ")+")")
			continue
		}
		fs := map[string]bool{}
		for _, row := range r.rows {
			row.locks = nil
			fs[row.field.name] = true
		}
		unanalysed = append(unanalysed, unan{r.name, r.posStr, strings.Join(whys, "; "), sortedKeys(fs)})
	}

	// ------------------------------------------------------------ tables
	knownFields := map[string]bool{}
	var fieldNames, lockNames, syncObjs []string
	for _, f := range allFields {
		switch f.kind {
		case kData, kAtomic:
			knownFields[f.name] = true
			fieldNames = append(fieldNames, f.name)
		case kMutex, kSyncObj:
			syncObjs = append(syncObjs, f.name+" ("+f.decl+")")
		case kContainer:
			if f.lock != "" {
				syncObjs = append(syncObjs, f.name+" (struct embedding sync.Mutex)")
			}
		}
		if f.lock != "" {
			lockNames = append(lockNames, f.lock)
		}
	}
	sort.Strings(fieldNames)
	sort.Strings(lockNames)
	sort.Strings(syncObjs)

	rowsByField := map[string][]*row{}
	for _, r := range results {
		for _, row := range r.rows {
			rowsByField[row.field.name] = append(rowsByField[row.field.name], row)
		}
	}
	for _, rows := range rowsByField {
		sort.SliceStable(rows, func(i, j int) bool { return lessPos(rows[i].posStr, rows[j].posStr) })
	}
	stale := applyJustify(filepath.Base(jfile), jlines, rowsByField, knownFields)

	funcSet, ownerSet, tagSet := map[string]bool{}, map[string]bool{}, map[string]bool{}
	for _, rows := range rowsByField {
		for _, r := range rows {
			funcSet[r.fn] = true
			if r.class == "confined" {
				ownerSet[r.owner] = true
			}
			if r.class == "pub" || r.class == "after" {
				tagSet[r.owner] = true
			}
		}
	}
	funcNames, ownerNames, tagNames := sortedKeys(funcSet), sortedKeys(ownerSet), sortedKeys(tagSet)
	fieldID, funcID, lockID, ownerID, tagID := index(fieldNames), index(funcNames), index(lockNames), index(ownerNames), index(tagNames)

	// ------------------------------------------------------------ output
	enc := json.NewEncoder(os.Stdout)
	enc.SetEscapeHTML(false)
	emit := func(v any) {
		if err := enc.Encode(v); err != nil {
			fatal(err)
		}
	}
	emit(struct {
		Kind        string   `json:"kind"`
		Fields      []string `json:"fields"`
		Funcs       []string `json:"funcs"`
		Locks       []string `json:"locks"`
		Owners      []string `json:"owners"`
		Tags        []string `json:"pub_tags"`
		SyncObjects []string `json:"sync_objects"`
	}{"names", fieldNames, funcNames, lockNames, nonNil(ownerNames), nonNil(tagNames), syncObjs})

	nRows, nUnsafe, nFields := 0, 0, 0
	for _, fname := range fieldNames {
		rows := rowsByField[fname]
		if len(rows) == 0 {
			continue
		}
		nFields++
		nRows += len(rows)
		var rj []rowJSON
		var coq []string
		for _, r := range rows {
			rj = append(rj, rowJSON{r.fn, r.posStr, r.write, nonNil(r.locks), classString(r), r.why})
			var ids []string
			for _, l := range r.locks {
				ids = append(ids, fmt.Sprint(lockID[l]))
			}
			j := "JPlain"
			switch r.class {
			case "atomic":
				j = "JAtomic"
			case "init":
				j = "JInit"
			case "confined":
				j = fmt.Sprintf("(JConfined %d)", ownerID[r.owner])
			case "pub":
				j = fmt.Sprintf("(JPub %d)", tagID[r.owner])
			case "after":
				j = fmt.Sprintf("(JAfter %d)", tagID[r.owner])
			}
			coq = append(coq, fmt.Sprintf("mkRow %d %v %d [%s] %s", fieldID[fname], r.write, funcID[r.fn], strings.Join(ids, "; "), j))
		}
		pairs := [][2]int{}
		for i := range rows {
			for j := i; j < len(rows); j++ {
				if !safePair(rows[i], rows[j]) {
					pairs = append(pairs, [2]int{i, j})
					if *verbose {
						reportPair(fname, rows[i], rows[j], i == j)
					}
				}
			}
		}
		nUnsafe += len(pairs)
		emit(struct {
			Kind   string    `json:"kind"`
			Field  string    `json:"field"`
			ID     int       `json:"id"`
			Rows   []rowJSON `json:"rows"`
			Unsafe [][2]int  `json:"unsafe_pairs"`
			Coq    string    `json:"coq"`
		}{"field", fname, fieldID[fname], rj, pairs, fmt.Sprintf("CField %d [%s]", fieldID[fname], strings.Join(coq, "; "))})
	}
	for _, s := range stale {
		emit(struct {
			Kind string `json:"kind"`
			What string `json:"what"`
			Coq  string `json:"coq"`
		}{"stale", s.what, fmt.Sprintf("CStale %d", s.line)})
		if *verbose {
			fmt.Fprintf(os.Stderr, "STALE      %s\n", s.what)
		}
	}
	for i, u := range unanalysed {
		emit(struct {
			Kind   string   `json:"kind"`
			Func   string   `json:"func"`
			Pos    string   `json:"pos"`
			Why    string   `json:"why"`
			Fields []string `json:"fields"`
			Coq    string   `json:"coq"`
		}{"unanalysed", u.fn, u.pos, u.why, nonNil(u.fields), fmt.Sprintf("CUnanalysed %d", i+1)})
		if *verbose {
			fmt.Fprintf(os.Stderr, "UNANALYSED %s (%s): %s; fields touched: %s\n", u.fn, u.pos, u.why, strings.Join(u.fields, ", "))
		}
	}
	sort.Strings(irrelevant)
	emit(struct {
		Kind       string   `json:"kind"`
		Fields     int      `json:"fields_with_rows"`
		Rows       int      `json:"rows"`
		Unsafe     int      `json:"unsafe_pairs"`
		Stale      int      `json:"stale"`
		Unanalysed int      `json:"unanalysed"`
		Justify    string   `json:"justify"`
		Packages   []string `json:"packages"`
		Irrelevant []string `json:"rejected_but_irrelevant"`
	}{"note", nFields, nRows, nUnsafe, len(stale), len(unanalysed), filepath.Base(jfile), notes, nonNil(irrelevant)})
	if *verbose {
		fmt.Fprintf(os.Stderr, "locksets: %d fields, %d rows, %d unsafe pairs, %d stale, %d unanalysed\n",
			nFields, nRows, nUnsafe, len(stale), len(unanalysed))
	}
}

// analyseWithHelpers runs the package analysis until the entry sets of the
// *Locked helpers (intersection over their call sites) are stable.
func analyseWithHelpers(p *pkgData) []*fnResult {
	top := lockset{}
	for _, l := range p.locks {
		top[l] = true
	}
	entries := map[string]lockset{}
	for h := range p.locked {
		entries[h] = top.clone()
	}
	var results []*fnResult
	sites := map[string][]*callSite{}
	for round := 0; round < 20; round++ {
		results = p.analysePackage(entries)
		sites = map[string][]*callSite{}
		for _, r := range results {
			for _, c := range r.calls {
				if len(r.rejects) > 0 {
					c.held = lockset{} // rejected caller: nothing is known
				}
				sites[c.callee] = append(sites[c.callee], c)
			}
		}
		next := map[string]lockset{}
		changed := false
		for h := range p.locked {
			var inter lockset
			for _, c := range sites[h] {
				if inter == nil {
					inter = c.held.clone()
					continue
				}
				for l := range inter {
					if !c.held[l] {
						delete(inter, l)
					}
				}
			}
			if inter == nil {
				inter = lockset{}
			}
			next[h] = inter
			if !inter.equal(entries[h]) {
				changed = true
			}
		}
		entries = next
		if !changed {
			break
		}
	}
	for _, r := range results {
		if !p.locked[r.name] {
			continue
		}
		switch {
		case len(sites[r.name]) == 0:
			r.rejects = append(r.rejects, rejection{r.posStr, "*Locked helper called without a lock: no call site in the package"})
		case len(entries[r.name]) == 0:
			var where []string
			for _, c := range sites[r.name] {
				where = append(where, fmt.Sprintf("%s at %s holds %s", c.caller, c.posStr, c.held))
			}
			sort.Strings(where)
			r.rejects = append(r.rejects, rejection{r.posStr, "*Locked helper called without a lock: " + strings.Join(where, "; ")})
		}
	}
	return results
}

func safePair(a, b *row) bool {
	if !a.write && !b.write {
		return true
	}
	if a.class == "atomic" && b.class == "atomic" {
		return true
	}
	if a.class == "init" || b.class == "init" {
		return true
	}
	if a.class == "confined" && b.class == "confined" && a.owner == b.owner {
		return true
	}
	if a.class == "pub" && b.class == "pub" && a.owner == b.owner {
		return true
	}
	if (a.class == "pub" && b.class == "after" || a.class == "after" && b.class == "pub") && a.owner == b.owner {
		return true
	}
	for _, l := range a.locks {
		for _, m := range b.locks {
			if l == m {
				return true
			}
		}
	}
	return false
}

func rw(r *row) string {
	if r.write {
		return "write"
	}
	return "read "
}

func reportPair(field string, a, b *row, same bool) {
	fmt.Fprintf(os.Stderr, "UNSAFE     %s\n", field)
	fmt.Fprintf(os.Stderr, "             %s %-9s %s in %s holding {%s}\n", rw(a), classString(a), a.posStr, a.fn, strings.Join(a.locks, ","))
	if same {
		fmt.Fprintf(os.Stderr, "             (the same site in two goroutines)\n")
		return
	}
	fmt.Fprintf(os.Stderr, "             %s %-9s %s in %s holding {%s}\n", rw(b), classString(b), b.posStr, b.fn, strings.Join(b.locks, ","))
}

func classString(r *row) string {
	if r.class == "confined" || r.class == "pub" || r.class == "after" {
		return r.class + ":" + r.owner
	}
	return r.class
}

// lessPos orders "file:line:col" strings numerically.
func lessPos(a, b string) bool {
	fa, la, ca := splitPos(a)
	fb, lb, cb := splitPos(b)
	if fa != fb {
		return fa < fb
	}
	if la != lb {
		return la < lb
	}
	return ca < cb
}

func splitPos(s string) (string, int, int) {
	parts := strings.Split(s, ":")
	if len(parts) < 3 {
		return s, 0, 0
	}
	var l, c int
	fmt.Sscan(parts[len(parts)-2], &l)
	fmt.Sscan(parts[len(parts)-1], &c)
	return strings.Join(parts[:len(parts)-2], ":"), l, c
}

func sortedKeys(m map[string]bool) []string {
	out := make([]string, 0, len(m))
	for k := range m {
		out = append(out, k)
	}
	sort.Strings(out)
	return out
}

func index(names []string) map[string]int {
	m := map[string]int{}
	for i, n := range names {
		m[n] = i
	}
	return m
}

func nonNil(s []string) []string {
	if s == nil {
		return []string{}
	}
	return s
}

func fatal(err error) {
	fmt.Fprintln(os.Stderr, "locksets:", err)
	os.Exit(1)
}

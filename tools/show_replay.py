#!/usr/bin/env python3
import json,sys
d=json.load(open(sys.argv[1]))
print(d.get('kind'), 'disagreements=',d.get('disagreements'), 'reasons=',d.get('reasons'), d.get('signature'))
if 'broken' in d: print(str(d['broken'])[:2500])
r=d.get('first') or d.get('case')
if r:
    desc=r['desc']; obs=r.get('obs')
    acts=desc.get('acts') if isinstance(desc,dict) else None
    print('tags',r.get('tags'))
    if acts and isinstance(obs,list):
        for i,a in enumerate(acts):
            o=obs[i] if i<len(obs) else None
            print(i, json.dumps(a), '=>', json.dumps(o) if o else '-')
    else:
        print(json.dumps(desc)[:1500]); print(json.dumps(obs)[:1500])

#!/usr/bin/env python3
"""Regenerates the tables of DESIGN.md 11.2 and 11.3 between their markers."""
import os, re, subprocess
ROOT = os.path.dirname(os.path.dirname(os.path.abspath(__file__)))
p = os.path.join(ROOT, "DESIGN.md")
s = open(p).read()
st = subprocess.check_output(["python3", os.path.join(ROOT, "tools", "gen_status.py")], text=True)
ct = subprocess.check_output(["python3", os.path.join(ROOT, "tools", "gen_catch_table.py")], text=True)
s = re.sub(r"<!-- BEGIN STATUS -->.*?<!-- END STATUS -->", lambda m: "<!-- BEGIN STATUS -->\n" + st + "<!-- END STATUS -->", s, flags=re.S)
s = re.sub(r"<!-- BEGIN CATCH -->.*?<!-- END CATCH -->", lambda m: "<!-- BEGIN CATCH -->\n" + ct + "<!-- END CATCH -->", s, flags=re.S)
open(p, "w").write(s)
print("DESIGN.md tables updated")

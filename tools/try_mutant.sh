#!/bin/sh
# usage: tools/try_mutant.sh <patch.diff> <property>...   (applies to /repo, runs quick checks, reverts)
# Holds the exclusive lock on /repo's working tree (checks hold it shared), so that no other check sees the mutant.
patch="$(readlink -f "$1")"; shift
mkdir -p /verif/build
exec 9>/verif/build/.repo.lock
flock -x 9
export VERIF_REPO_LOCKED=1
cd /repo || exit 2
if ! git diff --quiet; then echo "/repo has uncommitted changes"; exit 2; fi
git apply "$patch" || { echo "patch does not apply"; exit 2; }
cd /verif
for p in "$@"; do
  ./check "$p" --tier ${TIER:-quick} > /tmp/try_$p.log 2>&1; rc=$?
  echo "== $p exit=$rc: $(grep -c '^VIOLATION' /tmp/try_$p.log) violation lines; $(grep -m1 'tier=' /tmp/try_$p.log)"
  grep '^VIOLATION' /tmp/try_$p.log | head -2
done
git -C /repo checkout -- .
git -C /repo clean -fdq -- . 2>/dev/null
git -C /repo status --short | head -3

#!/bin/sh
# usage: tools/try_mutant.sh <patch.diff> <property>...
# Applies the patch to a scratch worktree of /repo's HEAD (never to /repo itself) and runs the quick checks of the
# given properties against that tree (VERIF_REPO): nothing another check builds from is touched, evidence/ is not
# written (the run's evidence and replay files are under build/<id>@<tree>/), trials may run in parallel.
patch="$(readlink -f "$1")"; shift
wt=$(mktemp -d /tmp/mutwt.XXXXXX)
git -C /repo worktree add -q --detach "$wt" HEAD || exit 2
# the build output of the trial (harness binary, cases, .vo) goes with the worktree; evidence.json and replay/ stay
cleanup() { git -C /repo worktree remove --force "$wt" 2>/dev/null; rm -rf "$wt"
  for b in /verif/build/*@$(echo "$wt" | sed 's/[^A-Za-z0-9_]\+/_/g'); do [ -d "$b" ] && find "$b" -mindepth 1 -maxdepth 1 ! -name evidence.json ! -name replay -exec rm -rf {} + ; done; }
trap cleanup EXIT
git -C "$wt" apply "$patch" || { echo "patch does not apply"; exit 2; }
cd /verif
for p in "$@"; do
  log=/tmp/try_${p}_$(basename "$wt").log
  VERIF_REPO="$wt" ./check "$p" --tier ${TIER:-quick} > "$log" 2>&1; rc=$?
  echo "== $p exit=$rc: $(grep -c '^VIOLATION' "$log") violation lines; $(grep -m1 'tier=' "$log")"
  grep '^VIOLATION' "$log" | head -2
  cp "$log" /tmp/try_$p.log
done

#!/bin/sh
# usage: tools/try_mutant.sh <patch.diff> <property>...   (applies to /repo, runs quick checks, reverts)
patch="$1"; shift
cd /repo || exit 2
if ! git diff --quiet; then echo "/repo has uncommitted changes"; exit 2; fi
git apply "$patch" || { echo "patch does not apply"; exit 2; }
cd /verif
for p in "$@"; do
  ./check "$p" --tier quick > /tmp/try_$p.log 2>&1; rc=$?
  echo "== $p exit=$rc: $(grep -c '^VIOLATION' /tmp/try_$p.log) violation lines; $(grep -m1 'tier=' /tmp/try_$p.log)"
  grep '^VIOLATION' /tmp/try_$p.log | head -2
done
git -C /repo checkout -- .
git -C /repo status --short | head -3

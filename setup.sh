#!/bin/sh
# MANIFEST.setup_cmd: build the framework offline from files on disk only.
set -e
cd "$(dirname "$0")"
export GOFLAGS=-mod=mod GOPROXY=off GOSUMDB=off GOTOOLCHAIN=local
mkdir -p build evidence/replay
# make -k: a file that does not compile breaks only the checks whose proof cone contains it (each ./check
# verifies that its own cone is built); the failure is reported here but does not stop the other properties.
( cd coq && coq_makefile -f _CoqProject -o Makefile >/dev/null && timeout 3000 make -k -j16 >../build/coq-build.log 2>&1 ) || { echo "WARNING: the Coq development did not build completely:"; grep -B2 -A6 "Error" build/coq-build.log | head -60; }
cp /repo/go.sum harness/go.sum
( cd harness && go1.26.8 test -c -tags verif -o ../build/harness.test . ) || echo "WARNING: the base harness did not build"
( cd harness && go1.26.8 test -c -race -tags verif -o ../build/harness.race.test . ) || true
# warm the Go build cache for every tag set the checks use (lib/props/*.py: go_tags="...")
for tags in $(grep -ho 'go_tags="[^"]*"' lib/props/*.py | sort -u | sed 's/go_tags="//; s/"//'); do
  ( cd harness && go1.26.8 test -c -tags "verif,$tags" -o /dev/null . ) >/dev/null 2>&1 || echo "WARNING: harness with tags $tags did not build"
done
# whole-tree audit (each ./check audits its own proof cone)
if grep -rnE '\b(Admitted|admit|Axiom|Parameter|Conjecture|Admit Obligations|bypass_check|Unset Guard Checking|native_compute)\b' coq --include=*.v | grep -v '^[^:]*:[0-9]*: *(\*' ; then echo "WARNING: forbidden command somewhere in coq/ (see above)"; fi
echo setup ok

#!/bin/sh
# MANIFEST.setup_cmd: build the framework offline from files on disk only.
set -e
cd "$(dirname "$0")"
export GOFLAGS=-mod=mod GOPROXY=off GOSUMDB=off GOTOOLCHAIN=local
mkdir -p build evidence/replay
( cd coq && coq_makefile -f _CoqProject -o Makefile >/dev/null && timeout 3000 make -j16 >../build/coq-build.log 2>&1 ) || { tail -40 build/coq-build.log; exit 1; }
cp /repo/go.sum harness/go.sum
( cd harness && go1.26.8 test -c -tags verif -o ../build/harness.test . ) 
( cd harness && go1.26.8 test -c -race -tags verif -o ../build/harness.race.test . ) || true
echo setup ok
